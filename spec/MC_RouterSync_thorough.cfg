CONSTANTS
  Locales = {"en", "fr", "de"}
  Default = "en"
  None = "none"
  MaxUser = 5
  UserRaces = FALSE
SPECIFICATION Spec
INVARIANTS TypeOK
PROPERTY Settles
CHECK_DEADLOCK FALSE
