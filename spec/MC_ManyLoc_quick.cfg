CONSTANTS N = 20
SPECIFICATION Spec
CHECK_DEADLOCK FALSE
