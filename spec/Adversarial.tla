----------------------------- MODULE Adversarial -----------------------------
(* C09 at the value level: every string over an adversarial alphabet of       *)
(* *lexemes* (delimiters, multi-byte characters, whitespace) is pushed through *)
(* the splitting algorithm.  One state per string; the invariants say the     *)
(* algorithm is total on it, terminates, and neither invents nor loses text.  *)
EXTENDS Value

CONSTANTS Lexemes,   \* set of symbol sequences
          MaxLex     \* strings are made of at most MaxLex lexemes

VARIABLES s, n
vars == <<s, n>>

Init == s = <<>> /\ n = 0
AddLex(x) == n < MaxLex /\ s' = s \o x /\ n' = n + 1
Next == \E x \in Lexemes : AddLex(x)

\* symbols of all text pieces and names, in order
RECURSIVE Flat(_)
Flat(v) == IF v = <<>> THEN <<>>
           ELSE LET h == Head(v) IN
                (IF h.k = "text" THEN h.s ELSE IF h.k = "var" THEN h.n ELSE h.n \o Flat(h.c) \o h.n) \o Flat(Tail(v))

\* x is a subsequence of y (order preserved)
RECURSIVE IsSubseq(_, _)
IsSubseq(x, y) == IF x = <<>> THEN TRUE
                  ELSE IF y = <<>> THEN FALSE
                  ELSE IF Head(x) = Head(y) THEN IsSubseq(Tail(x), Tail(y)) ELSE IsSubseq(x, Tail(y))

RECURSIVE TextOnly(_)
TextOnly(v) == IF v = <<>> THEN <<>>
               ELSE LET h == Head(v) IN
                    (IF h.k = "text" THEN h.s ELSE IF h.k = "comp" THEN TextOnly(h.c) ELSE <<>>) \o TextOnly(Tail(v))

\* the algorithm is total (TLC evaluates it), its result is canonical, and every text it keeps
\* comes from the source in source order
ParseTotal == LET v == ParseCanon(s) IN
              /\ Canon(v) = v
              /\ IsSubseq(TextOnly(v), s)
\* a string without any delimiter is one literal
PlainIsLiteral == (\A i \in DOMAIN s : s[i] \notin {"LT", "LB", "DOL"}) => ParseCanon(s) = (IF s = <<>> THEN <<>> ELSE <<Text(s)>>)
=============================================================================
