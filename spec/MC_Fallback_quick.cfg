CONSTANTS
  Def = "en"
  NonDef = {"fr", "de"}
SPECIFICATION MCSpec
INVARIANTS FallbackOK ResolvedIsDefining EmitCases
PROPERTY Termination
CHECK_DEADLOCK FALSE
