--------------------------- MODULE FormatterValues ---------------------------
(* The VALUES formatters are applied to.                                        *)
(*                                                                             *)
(* A formatter key `{{ v, number(..) }}` accepts a value of any primitive       *)
(* numeric type (and FixedDecimal); what is formatted is THE NUMBER THE CALLER  *)
(* WROTE: the decimal expansion that denotes the value of that type - for a     *)
(* float the shortest decimal that reads back as the same float of the SAME     *)
(* type (what `{}` prints), for FixedDecimal the digits as given, trailing      *)
(* zeros included.  A value is therefore modelled by its type and its decimal   *)
(* text; the text is handed to the oracle (ICU4X on FixedDecimal::from_str).    *)
(* Lists are formatted for every length (the patterns for 0, 1, 2, 3 and more   *)
(* items differ); dates / times for a few corner days.                          *)
EXTENDS Naturals, Sequences, FiniteSets

IntTypes   == {"u8", "u16", "u32", "u64", "u128", "usize", "i8", "i16", "i32", "i64", "i128", "isize"}
FloatTypes == {"f32", "f64"}
NumTypes   == IntTypes \cup FloatTypes \cup {"dec"}

\* extreme values of the integer types, as text (TLC's integers are 32-bit)
MaxOf(ty) ==
    CASE ty = "u8" -> "255" [] ty = "u16" -> "65535" [] ty = "u32" -> "4294967295" [] ty = "u64" -> "18446744073709551615"
      [] ty = "u128" -> "340282366920938463463374607431768211455" [] ty = "usize" -> "18446744073709551615"
      [] ty = "i8" -> "127" [] ty = "i16" -> "32767" [] ty = "i32" -> "2147483647" [] ty = "i64" -> "9223372036854775807"
      [] ty = "i128" -> "170141183460469231731687303715884105727" [] ty = "isize" -> "9223372036854775807"
MinOf(ty) ==
    CASE ty = "i8" -> "-128" [] ty = "i16" -> "-32768" [] ty = "i32" -> "-2147483648" [] ty = "i64" -> "-9223372036854775808"
      [] ty = "i128" -> "-170141183460469231731687303715884105728" [] ty = "isize" -> "-9223372036854775808"
      [] OTHER -> "0"

IntTexts(ty)  == {"0", "7", "100", MaxOf(ty), MinOf(ty)} \cup (IF MinOf(ty) = "0" THEN {} ELSE {"-1", "-100"})
\* decimals whose shortest round-trip form in the type is the text itself
F32Texts == {"0", "0.1", "0.5", "-0.25", "1000", "16777216", "3.14", "0.000001", "123456.7", "-99.99", "0.3"}
F64Texts == {"0", "0.1", "0.5", "-1234.5", "1234567.891", "0.000001", "1000000000000000", "0.30000000000000004", "3.14", "-99.99"}
DecTexts == {"1234567.891", "-0.50", "12.3400", "0", "-7"}

TextsOf(ty) == IF ty \in IntTypes THEN IntTexts(ty) ELSE IF ty = "f32" THEN F32Texts ELSE IF ty = "f64" THEN F64Texts ELSE DecTexts
Numbers == UNION { { [kind |-> "number", ty |-> ty, text |-> t] : t \in TextsOf(ty) } : ty \in NumTypes }

Items == <<"A", "B", "C", "D", "E">>
Lists == { [kind |-> "list", ty |-> "vec", items |-> SubSeq(Items, 1, n)] : n \in 0..5 }
Dates == { [kind |-> "date", ty |-> "date", text |-> t] : t \in {"2024-12-31", "2024-02-29", "2000-01-01", "999-07-04", "1970-01-01"} }
Times == { [kind |-> "time", ty |-> "time", text |-> t] : t \in {"14:34:28", "00:00:00", "12:00:00", "23:59:59", "09:05:07"} }
DateTimes == { [kind |-> "datetime", ty |-> "datetime", text |-> d \o "T" \o t] :
                d \in {"2024-02-29", "1970-01-01"}, t \in {"00:00:00", "12:00:00", "23:59:59"} }

\* what the oracle formats: the number written, whatever the Rust type it travelled in
Canon(v) == v.text

\* formatter kinds a value can be given to (a currency amount is a number)
KindsOf(v) == IF v.kind = "number" THEN {"number", "currency"} ELSE {v.kind}
=============================================================================
