SPECIFICATION Spec
CHECK_DEADLOCK FALSE
