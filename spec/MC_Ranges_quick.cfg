CONSTANTS
  Decls <- MCDecls
  AnchorsUsed = {1, 3, 4, 6}
  MaxAlts = 1
  TwoBranch = TRUE
  EmitTypes = {"i8", "u8", "i32", "u64", "f32", "f64"}
SPECIFICATION MCSpec
INVARIANTS SelectAgrees FallbackTotal NormalisePreserves EmitCases
PROPERTY Termination
CHECK_DEADLOCK FALSE
