---------------------------- MODULE MC_FkFamilies ----------------------------
(* Emits the hand-written foreign-key families of FkCases. *)
EXTENDS FkCases
VARIABLE i
ArmAll == "all"
Fam == SetToSeq(Families)
Init == i = 1
Next == i <= Len(Fam) /\ PrintT(<<"CASE", ToJson(Fam[i])>>) /\ i' = i + 1
Spec == Init /\ [][Next]_i
=============================================================================
