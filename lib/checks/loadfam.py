"""Shared runner for the properties observed at the parser level (L1): TLC explores the
model and prints CASE lines, every case becomes a project directory, drv_parser replays it
into the real leptos_i18n_parser, and the Trace_* specification validates the events."""
import json
import os
import shutil

import vp


def gen_cases(run, module, cfg, name=None, workers=None, timeout=3000, simulate=None, env=None, check_ok=True):
    res = vp.tlc(module, cfg, run.workdir, workers=workers, timeout=timeout, simulate=simulate, env=env)
    if check_ok:
        vp.tlc_ok(res, module + "/" + cfg)
    run.add_mc(name or (module + "/" + cfg), res)
    cases = sorted(set(res["tagged"].get("CASE", [])))
    return [json.loads(c) for c in cases], res


def replay_load(run, cases, trace_module, trace_cfg, build_features=("json",), variant="json", fmt="json",
                skip_icu=False, tag="", per_case_timeout=20, key_of=None, perm_seed=None, keep_dirs=False,
                trace_env=None, package="drv_parser", ext=None, codegen_fmt=None, decoy_ext=None):
    """cases: list of case dicts; each becomes a project directory parsed with parse_locales.
    A case with a "mode": "value" field is instead sent to ParsedValue::new (field "s")."""
    wd = os.path.join(run.workdir, "load" + tag)
    shutil.rmtree(wd, ignore_errors=True)
    os.makedirs(wd)
    if package == "drv_codegen" and codegen_fmt:
        binary = vp.cargo_build(package, ("base", codegen_fmt), variant=codegen_fmt, no_default=True)
    else:
        binary = vp.cargo_build(package, build_features if package == "drv_parser" else (), variant=variant if package == "drv_parser" else None)
    if package == "drv_codegen":
        trace_env = dict(trace_env or {})
    rows = []
    for i, c in enumerate(cases):
        c["id"] = i + 1
        if c.get("mode") == "value":
            rows.append({"case": i + 1, "mode": "value", "s": c["s"]})
            continue
        d = os.path.join(wd, "p%05d" % (i + 1))
        # a case may place the crate in a sub-directory of its own directory (so that `locales-dir = "../x"` stays inside the case)
        d_crate = os.path.join(d, c["root"]) if c.get("root") else d
        vp.materialise(c, d_crate, fmt=fmt, perm_seed=perm_seed, ext=ext, decoy_ext=decoy_ext)
        rows.append({"case": i + 1, "mode": "load", "dir": d_crate, "skip_icu": skip_icu})
    cases_path = os.path.join(wd, "cases.ndjson")
    # the trace spec only needs the abstract part of a case
    vp.write_ndjson(cases_path, [{"id": c["id"], "abs": c.get("abs")} for c in cases])
    drv_in = os.path.join(wd, "drv_in.ndjson")
    vp.write_ndjson(drv_in, rows)
    trace_path = os.path.join(wd, "trace.ndjson")
    crashes = vp.run_driver(binary, drv_in, trace_path, len(rows), per_case_timeout=per_case_timeout)
    summary, rejects, res = vp.trace_validate(trace_module, trace_cfg, wd, trace_path, cases_path, env=trace_env)
    if summary["consumed"] != summary["events"]:
        raise vp.ToolError("trace spec %s consumed %s of %s events" % (trace_module, summary["consumed"], summary["events"]))
    run.traces += len(rows)
    run.events += summary["events"]
    run.cases += len(rows)
    events = {}
    if rejects:
        events = {e["case"]: e for e in vp.read_ndjson(trace_path) if e.get("ev") in ("Load", "Crash", "Value", "Build", "Codegen")}
    for r in rejects:
        c = cases[r["case"] - 1]
        key = key_of(c, r) if key_of else vp.fingerprint({"abs": c.get("abs"), "tags": sorted(r["tags"])[:1]})
        ev = events.get(r["case"])
        run.violation(key, "case %d tags %s" % (r["case"], sorted(r["tags"])[:6]),
                      {"case": _shrink(c, 60000), "tags": sorted(r["tags"])[:50], "event": _shrink(ev), "trace_module": trace_module,
                       "dir": os.path.join(wd, "p%05d" % r["case"]), "tlc": r.get("tlc")})
    if not keep_dirs:
        bad = {r["case"] for r in rejects}
        for i in range(len(cases)):
            if (i + 1) not in bad:
                shutil.rmtree(os.path.join(wd, "p%05d" % (i + 1)), ignore_errors=True)
    return summary, rejects, crashes


def namespaced(cases):
    """The same projects placed in the first of two namespaces (the second one holds an unrelated key).  The first unit of the
    parser's result is then that namespace, so a family's trace specification applies unchanged (with NS=n1 for diagnostics)."""
    def patch(node):
        """foreign keys inside a namespaced project must name the namespace: `$t(k` -> `$t(n1:k`"""
        t = node["t"]
        if t == "str":
            s, o, i = node["s"], [], 0
            while i < len(s):
                o.append(s[i])
                if s[i:i + 3] == ["DOL", "t", "LP"]:
                    o += ["t", "LP", "n", "1", "COLON"]
                    i += 3
                else:
                    i += 1
            return {"t": "str", "s": o}
        if t == "map":
            return {"t": "map", "e": [[k, patch(v)] for k, v in node["e"]]}
        if t == "seq":
            return {"t": "seq", "e": [patch(v) for v in node["e"]]}
        return node
    out = []
    other = {"t": "map", "e": [["zz", {"t": "str", "s": ["o", "t", "h", "e", "r"]}]]}
    for c in cases:
        if c.get("mode") == "value":
            continue
        cfg = dict(c["cfg"])
        cfg["namespaces"] = ["n1", "n2"]
        files = []
        for entry in c["files"]:
            files.append([entry[0] + "/n1", patch(entry[1])])
            files.append([entry[0] + "/n2", other])
        d = dict(c)
        d["cfg"] = cfg
        d["files"] = files
        out.append(d)
    return out


def _shrink(ev, limit=20000):
    s = json.dumps(ev)
    if len(s) <= limit:
        return ev
    return {"truncated": s[:limit]}


def replay_suppressed(run, cases, trace_module, trace_cfg, key_of, step=4, trace_env=None, tag="_suppress"):
    """a subsample of the cases loaded by a parser built with `suppress_key_warnings`: silencing the key-set diagnostics must not
    change anything else (values, fallback sources, branches, references)"""
    sub = [dict(c) for c in cases[::step]]
    return replay_load(run, sub, trace_module, trace_cfg, build_features=("json", "quote", "suppress"), variant="json-quote-suppress",
                       key_of=lambda c, r: "suppress_key_warnings;" + key_of(c, r), tag=tag, trace_env=trace_env)


def replay_reload(run, cases, trace_module, trace_cfg, key_of, trace_env=None, package="drv_parser", build_features=("json", "quote"),
                  variant="json-quote", tag="_reload", fmt="json", per_case_timeout=30):
    """"The project was edited and loaded again": project j is loaded, then THE SAME DIRECTORY is given the content of project
    j + 1 and loaded again in the same process (what a language server's macro expansion or a long-lived build daemon does).
    The second load must be the outcome of the new content - nothing may be remembered by path."""
    wd = os.path.join(run.workdir, "load" + tag)
    shutil.rmtree(wd, ignore_errors=True)
    os.makedirs(wd)
    binary = vp.cargo_build(package, build_features if package == "drv_parser" else (), variant=variant if package == "drv_parser" else None)
    cases = [c for c in cases if c.get("mode") != "value"]
    dirs = []
    for i, c in enumerate(cases):
        d = os.path.join(wd, "src%05d" % (i + 1))
        vp.materialise(c, os.path.join(d, c["root"]) if c.get("root") else d, fmt=fmt)
        dirs.append(d)
    rows, abss = [], []
    for j in range(len(cases) - 1):
        slot = os.path.join(wd, "slot%05d" % (j + 1))
        for k in (j, j + 1):
            root = cases[k].get("root")
            # (projects that live in a sub-directory of their case keep doing so; the slot then is the case directory)
            rows.append({"case": len(rows) + 1, "mode": "load", "dir": os.path.join(slot, root) if root else slot,
                         "pre_copy_from": os.path.join(dirs[k], root) if root else dirs[k], "skip_icu": False})
            abss.append(cases[k])
    cases_path = os.path.join(wd, "cases.ndjson")
    vp.write_ndjson(cases_path, [{"id": i + 1, "abs": c.get("abs")} for i, c in enumerate(abss)])
    drv_in = os.path.join(wd, "drv_in.ndjson")
    vp.write_ndjson(drv_in, rows)
    trace_path = os.path.join(wd, "trace.ndjson")
    vp.run_driver(binary, drv_in, trace_path, len(rows), per_case_timeout=per_case_timeout)
    summary, rejects, res = vp.trace_validate(trace_module, trace_cfg, wd, trace_path, cases_path, env=trace_env)
    if summary["consumed"] != summary["events"]:
        raise vp.ToolError("trace spec %s consumed %s of %s events" % (trace_module, summary["consumed"], summary["events"]))
    run.traces += len(rows)
    run.events += summary["events"]
    run.cases += len(rows)
    for r in rejects:
        c = abss[r["case"] - 1]
        run.violation("reloaded-after-edit;" + key_of(c, r), "case %d (%s load of its directory) tags %s" % (r["case"], "second" if r["case"] % 2 == 0 else "first", sorted(r["tags"])[:6]),
                      {"case": _shrink(c, 60000), "tags": sorted(r["tags"])[:50], "trace_module": trace_module, "row": rows[r["case"] - 1]})
    shutil.rmtree(wd, ignore_errors=True) if not rejects else None
    return summary, rejects
