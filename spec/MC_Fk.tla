-------------------------------- MODULE MC_Fk --------------------------------
EXTENDS FkResolve, FkCases

CONSTANT FullArgs
MCGraphs == GraphUniverse(FullArgs)
EmitCases == (err = "none" /\ \A id \in DOMAIN memo : memo[id].s = "notset") => PrintT(<<"CASE", ToJson(GraphCase(vals))>>)
MCSpec == Init /\ [][Next]_vars /\ WF_vars(Next)
=============================================================================
