CONSTANTS
  MaxArgs = 2
  WsChoices <- MCWs
  Threads = {"t1"}
  CacheKeys = {"k1"}
SPECIFICATION MCSpec
INVARIANTS ParseIsMeaning EmitCases
CONSTRAINT GenOnly
CHECK_DEADLOCK FALSE
