CONSTANTS
  Locs = {"en", "fr", "de"}
  Default = "en"
  HeaderSpellings = {"tight", "spaced", "q", "star"}
  HeaderToks = {"fr", "it"}
  MaxCtx = 2
  MaxViews = 2
  MaxAccs = 0
  Mode = "c15"
  AccSet = "base"
  SubVariants = "small"
  MaxHist = 2
SPECIFICATION MCSpec
INVARIANTS TypeOK EmitCases
PROPERTIES CreateIsolation
CHECK_DEADLOCK FALSE
