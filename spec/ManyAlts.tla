------------------------------- MODULE ManyAlts -------------------------------
(* C04 at scale in the number of ALTERNATIVES of one branch: a branch written  *)
(* `a | b | c | ...` (or as a list) contains a count iff SOME alternative does, *)
(* whatever the alternatives overlap, contain, repeat or bridge one another.    *)
(* Alternatives are inclusive intervals <<lo, hi>> of integers; branches are    *)
(* tried in order, the last one is the fallback.                                *)
EXTENDS Chars, Integers, Sequences

\* per key: the branches' alternatives (the fallback is implicit, after them)
Keys == [
  \* u8: bridging (2..8 joins 0..3 and 7..10), contained and repeated alternatives, a branch shadowed by an earlier one
  ua |-> << << <<0, 2>>, <<7, 9>>, <<2, 7>> >>,
            << <<20, 25>>, <<22, 22>>, <<24, 30>>, <<21, 22>> >>,
            << <<40, 40>>, <<42, 42>>, <<41, 41>>, <<40, 42>> >>,
            << <<5, 12>>, <<100, 255>>, <<90, 110>> >> >>,
  \* i8: the same shapes around zero and at the ends of the type
  ia |-> << << <<-9, -7>>, <<-3, 0>>, <<-8, -2>> >>,
            << <<-128, -120>>, <<120, 127>>, <<-121, -100>> >>,
            << <<5, 5>>, <<7, 7>>, <<6, 6>>, <<4, 8>>, <<1, 10>> >> >> ]
TyOf == [ua |-> <<"u","8">>, ia |-> <<"i","8">>]
DomOf == [ua |-> 0..255, ia |-> -128..127]

BranchText(j) == <<"b">> \o NatSyms(j)
Other == <<"o","t","h","e","r">>
Covers(alts, c) == \E a \in DOMAIN alts : alts[a][1] <= c /\ c <= alts[a][2]
\* what count c shows for key k: the first branch that contains it
Shown(k, c) == LET J == { j \in DOMAIN Keys[k] : Covers(Keys[k][j], c) } IN
               IF J = {} THEN Other ELSE BranchText(CHOOSE j \in J : \A i \in J : j <= i)

\* spelling: an interval as an exact value, `lo..=hi`, or `lo..hi+1` (alternating), joined by ` | ` or given as a list
AltText(a, n) == IF a[1] = a[2] THEN IntSyms(a[1])
                 ELSE IF n % 2 = 0 \/ a[2] \in {255, 127} THEN IntSyms(a[1]) \o <<"DOT","DOT","EQ">> \o IntSyms(a[2])
                 ELSE IntSyms(a[1]) \o <<"DOT","DOT">> \o IntSyms(a[2] + 1)
RECURSIVE JoinAlts(_, _)
JoinAlts(alts, n) == IF Len(alts) = 1 THEN AltText(alts[1], n)
                     ELSE AltText(alts[1], n) \o <<"SP","PIPE","SP">> \o JoinAlts(Tail(alts), n + 1)
BranchNode(k, j, list) ==
    IF list THEN SeqNode(<< StrNode(BranchText(j)) >> \o [a \in DOMAIN Keys[k][j] |-> StrNode(AltText(Keys[k][j][a], a))])
    ELSE SeqNode(<< StrNode(BranchText(j)), StrNode(JoinAlts(Keys[k][j], 1)) >>)
Decl(k, list) == SeqNode(<< StrNode(TyOf[k]) >> \o [j \in DOMAIN Keys[k] |-> BranchNode(k, j, list)] \o << SeqNode(<< StrNode(Other) >>) >>)
\* file keys: <k>p (pipe syntax) and <k>l (list syntax)
Case == [family |-> "many-alternatives", abs |-> [keys |-> <<"ua", "ia">>],
         cfg |-> [default |-> "en", locales |-> <<"en">>],
         files |-> << <<"en", MapNode(<< <<"uap", Decl("ua", FALSE)>>, <<"ual", Decl("ua", TRUE)>>,
                                         <<"iap", Decl("ia", FALSE)>>, <<"ial", Decl("ia", TRUE)>> >>)>> >>]
=============================================================================
