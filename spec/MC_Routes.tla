------------------------------- MODULE MC_Routes -------------------------------
(* Emits, per (locale set, route table, base), the URLs to be sent through the   *)
(* real I18nRoute (route families): every path of at most MaxRest words below    *)
(* every possible first segment (each locale name, words that merely start with  *)
(* a locale name, none), with and without the base.                              *)
EXTENDS RouterUniverse, Json

CONSTANT MaxRest
VARIABLE i

TableName(t) == IF t = T1 THEN "T1" ELSE "T2"
RECURSIVE WordSeqs(_)
WordSeqs(m) == IF m = 0 THEN { <<>> } ELSE WordSeqs(m - 1) \cup { Append(s, w) : s \in { q \in WordSeqs(m - 1) : Len(q) = m - 1 }, w \in Words }
Firsts(lset) == { <<>> } \cup { <<lset.names[x]>> : x \in DOMAIN lset.names } \cup { <<"english">>, <<"frog">>, <<"fr-CA">> }
PathsOf(lset, b) ==
    { b \o f \o r : f \in Firsts(lset), r \in WordSeqs(MaxRest) }
    \cup (IF b = <<>> THEN {} ELSE { f \o r : f \in Firsts(lset), r \in WordSeqs(1) })
RouteCases == { [family |-> "routes",
                 abs |-> [set |-> lset.set, names |-> lset.names, order |-> lset.order, default |-> lset.default, base |-> b, table |-> t,
                          tname |-> TableName(t)],
                 paths |-> SetToSeq(PathsOf(lset, b))]
               : lset \in MCLocaleSets, b \in MCBases, t \in {T1, T2} }
AllCases == SetToSeq(RouteCases)
RInit == i = 1
RNext == i <= Len(AllCases) /\ PrintT(<<"CASE", ToJson(AllCases[i])>>) /\ i' = i + 1
RSpec == RInit /\ [][RNext]_i

\* design-level sanity of the family model on every emitted URL: a locale is read only from an equal first segment
ExactOnly == \A c \in RouteCases : \A k \in DOMAIN c.paths :
    LET a == c.abs  p == c.paths[k] IN
    (Len(p) >= Len(a.base) /\ SubSeq(p, 1, Len(a.base)) = a.base) =>
        LET r == SubSeq(p, Len(a.base) + 1, Len(p))
            m == MatchUrl(r, a.names, a.order, a.default, a.table) IN
        m.loc # None => (r # <<>> /\ r[1] = a.names[m.loc])
=============================================================================
