------------------------------ MODULE RouterOps ------------------------------
(* C14  URL locale prefixes are matched by whole segment and rewritten        *)
(* reversibly.  Paths are sequences of segments (strings).                    *)
(* A route is a sequence of segment descriptors                               *)
(*   [t |-> "static", s] | [t |-> "param"] | [t |-> "opt"] | [t |-> "splat"]   *)
(*   | [t |-> "loc", key]      a static segment whose text depends on the locale *)
EXTENDS Common

St(s)  == [t |-> "static", s |-> s, key |-> ""]
Param  == [t |-> "param", s |-> "", key |-> ""]
Opt    == [t |-> "opt", s |-> "", key |-> ""]
Splat  == [t |-> "splat", s |-> "", key |-> ""]
Loc(k) == [t |-> "loc", s |-> "", key |-> k]

\* text of the localized segments, per key and locale
LocName == [ about |-> [en |-> "about", fr |-> "a-propos", enUS |-> "about-us", fra |-> "apropos"],
             users |-> [en |-> "users", fr |-> "utilisateurs", enUS |-> "users", fra |-> "usagers"] ]

SegText(d, x) == IF d.t = "loc" THEN LocName[d.key][x] ELSE d.s

NoMatch == <<"__NOMATCH__">>
\* re-spell path `ps`, which route `rs` matches in locale a, in locale b
RECURSIVE Rebuild(_, _, _, _)
Rebuild(rs, ps, a, b) ==
    IF rs = <<>> THEN (IF ps = <<>> THEN <<>> ELSE NoMatch)
    ELSE LET d == Head(rs) IN
         IF d.t = "splat" THEN ps
         ELSE IF d.t = "opt"
              THEN LET present == IF ps = <<>> THEN NoMatch
                                  ELSE LET r == Rebuild(Tail(rs), Tail(ps), a, b) IN IF r = NoMatch THEN NoMatch ELSE <<ps[1]>> \o r IN
                   IF present # NoMatch THEN present ELSE Rebuild(Tail(rs), ps, a, b)
         ELSE IF ps = <<>> THEN NoMatch
         ELSE IF d.t = "param"
              THEN LET r == Rebuild(Tail(rs), Tail(ps), a, b) IN IF r = NoMatch THEN NoMatch ELSE <<ps[1]>> \o r
         ELSE IF ps[1] # SegText(d, a) THEN NoMatch
              ELSE LET r == Rebuild(Tail(rs), Tail(ps), a, b) IN IF r = NoMatch THEN NoMatch ELSE <<SegText(d, b)>> \o r

\* the part of the path after base and locale prefix, re-spelled for locale b: first matching route, else unchanged
Localize(table, rest, a, b) ==
    LET I == { i \in DOMAIN table : Rebuild(table[i], rest, a, b) # NoMatch } IN
    IF I = {} THEN rest ELSE Rebuild(table[CHOOSE i \in I : \A j \in I : i <= j], rest, a, b)

Matches(table, rest, x) == \E i \in DOMAIN table : Rebuild(table[i], rest, x, x) # NoMatch

Prefix(x, names, default) == IF x = default THEN <<>> ELSE <<names[x]>>

\* names: locale -> its name in URLs;  base: sequence of segments
PathOf(base, x, rest, names, default) == base \o Prefix(x, names, default) \o rest

\* which locale a path reads as: the first segment after the base must EQUAL a locale name
ReadLocale(path, base, names) ==
    IF Len(path) > Len(base) /\ SubSeq(path, 1, Len(base)) = base /\ \E x \in DOMAIN names : names[x] = path[Len(base) + 1]
    THEN CHOOSE x \in DOMAIN names : names[x] = path[Len(base) + 1]
    ELSE None

\* how "/a/b" splits on "/":  <<"", "a", "b">>;  the root "/" is <<"", "">>
RawSplit(segs) == IF segs = <<>> THEN <<"", "">> ELSE <<"">> \o segs
=============================================================================
