------------------------------- MODULE MC_Embed -------------------------------
EXTENDS Embed, Json
MCUnits == { <<"en", "none">>, <<"fr", "none">> }
MCAlphabet == {"a", "QUOT", "BSL", "NL", "LT", "SL", "BANG", "LS", "EMO"}
EmitCases == (phase = "escaped" /\ log = <<>> /\ ~emitted) => PrintT(<<"CASE", ToJson([family |-> "embed-string", s |-> s])>>)
MCSpec == Init /\ [][Next]_vars
StringOnly == log = <<>> /\ ~emitted
UnitsOnly == s = <<>> /\ phase = "build"
=============================================================================
