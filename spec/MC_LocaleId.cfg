CONSTANTS SetNames <- MCSetNames
SPECIFICATION MCSpec
INVARIANTS RoundTrip NoForeignParse NamesDistinct EmitCases
CHECK_DEADLOCK FALSE
