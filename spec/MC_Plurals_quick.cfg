CONSTANTS
  MemberSets <- MCMemberSets
  SharedSlot = FALSE
SPECIFICATION MCSpec
INVARIANTS Conforms EmitCases EmitMulti
PROPERTY Termination
CHECK_DEADLOCK FALSE
