----------------------------- MODULE RouterSync -----------------------------
(* DESIGN-LEVEL model (not bound to the code by replay, see DESIGN.md 0.6):    *)
(* the client-side protocol by which `<I18nRoute>` keeps the locale prefix of  *)
(* the URL and the locale of the I18nContext in agreement                       *)
(* (leptos_i18n_router/src/routing.rs: update_path_effect,                      *)
(*  correct_locale_prefix_effect, check_history_change, and the navigations     *)
(*  they defer with request_animation_frame).  One action per effect run /      *)
(* event handler / animation frame, so that TLC interleaves them freely.        *)
(*                                                                             *)
(* The path functions the effects call (locale of a path, path for a locale)    *)
(* are the ones C14 binds to the code; here a URL is reduced to its locale      *)
(* prefix (None = no prefix = the default locale) and a page id.                *)
EXTENDS Integers, Sequences, FiniteSets, TLC

CONSTANTS Locales, Default, None, MaxUser, UserRaces      \* MaxUser: number of user / browser events explored

ASSUME Default \in Locales /\ None \notin Locales

VARIABLES
    ctx,        \* locale of the I18nContext
    hist, idx,  \* browser history: sequence of URLs (locale prefix or None), current position
    prev,       \* the value update_path_effect returned last time (None before its first run)
    sync,       \* StoredValue<Option<L>> `history_changed_locale`
    hc,         \* StoredValue<bool> `history_changed`
    updDirty,   \* update_path_effect must run (it tracks i18n.get_locale())
    corrDirty,  \* correct_locale_prefix_effect must run (it tracks location.pathname)
    raf,        \* navigations deferred to the next animation frames: sequence of [to, replace]
    handler,    \* a popstate event has been dispatched and check_history_change has not run yet
    boot,       \* effects that have not had their first run yet (they run right after mounting, before the user can do anything)
    user,       \* user / browser events so far
    want        \* what the last user event asked for: [kind, loc] (history variable, for the properties)
vars == <<ctx, hist, idx, prev, sync, hc, updDirty, corrDirty, raf, handler, boot, user, want>>

Url == hist[idx]
LocOf(u) == IF u = None THEN Default ELSE u          \* get_locale_from_path(..).unwrap_or_default()
PrefixFor(l) == IF l = Default THEN None ELSE l      \* get_new_path: the default locale has no prefix

Init ==
    /\ ctx \in Locales                                \* whatever locale resolution gave (cookie, header ...)
    /\ hist \in { <<u>> : u \in Locales \cup {None} } /\ idx = 1
    /\ prev = None /\ sync = None /\ hc = FALSE
    /\ updDirty = TRUE /\ corrDirty = TRUE            \* both effects run once after mounting
    /\ boot = {"upd", "corr"} /\ handler = FALSE
    /\ raf = <<>> /\ user = 0 /\ want = [kind |-> "none", loc |-> None]

SetCtx(l) == /\ ctx' = l
             /\ updDirty' = (updDirty \/ l # ctx)

\* ---- the effects --------------------------------------------------------------------------------
RunUpdate ==
    /\ updDirty
    /\ updDirty' = FALSE
    /\ IF sync # None
       THEN /\ sync' = None /\ prev' = sync /\ UNCHANGED raf               \* "don't react on history change"
       ELSE /\ UNCHANGED sync
            /\ prev' = ctx
            /\ IF prev = None \/ ctx = prev \/ ctx = LocOf(Url)
               THEN UNCHANGED raf
               ELSE raf' = Append(raf, [to |-> PrefixFor(ctx), replace |-> FALSE])
    /\ boot' = boot \ {"upd"}
    /\ UNCHANGED <<ctx, hist, idx, hc, corrDirty, handler, user, want>>

RunCorrect ==
    /\ corrDirty
    /\ corrDirty' = FALSE
    /\ IF ctx = LocOf(Url)
       THEN UNCHANGED <<ctx, hc, raf, updDirty>>
       ELSE LET newLoc == IF hc THEN ctx ELSE (IF Url = None THEN ctx ELSE Url) IN
            /\ hc' = FALSE
            /\ SetCtx(newLoc)
            /\ raf' = Append(raf, [to |-> PrefixFor(newLoc), replace |-> TRUE])
    /\ boot' = boot \ {"corr"}
    /\ UNCHANGED <<hist, idx, prev, sync, handler, user, want>>

\* an animation frame: the oldest deferred navigation happens
Frame ==
    /\ raf # <<>>
    /\ LET n == Head(raf) IN
       IF n.replace
       THEN /\ hist' = [hist EXCEPT ![idx] = n.to] /\ UNCHANGED idx
       ELSE /\ hist' = Append(SubSeq(hist, 1, idx), n.to) /\ idx' = idx + 1
    /\ raf' = Tail(raf)
    /\ corrDirty' = (corrDirty \/ hist'[idx'] # Url)
    /\ UNCHANGED <<ctx, prev, sync, hc, updDirty, handler, boot, user, want>>

\* ---- the user and the browser -------------------------------------------------------------------
\* The user acts on a page at rest: the effects and the deferred navigations they cause complete within an animation frame or
\* two, far below human reaction time (UserRaces = TRUE drops this assumption and lets the user act at any moment).
AtRest == boot = {} /\ ~handler /\ (UserRaces \/ (~updDirty /\ ~corrDirty /\ raf = <<>>))
UserSetLocale(l) ==
    /\ AtRest /\ UNCHANGED boot
    /\ user < MaxUser /\ user' = user + 1
    /\ SetCtx(l)
    /\ want' = [kind |-> "set", loc |-> l]
    /\ UNCHANGED <<hist, idx, prev, sync, hc, corrDirty, raf, handler>>

\* a link to a URL with the given prefix
UserNavigate(u) ==
    /\ AtRest /\ UNCHANGED boot
    /\ user < MaxUser /\ user' = user + 1
    /\ hist' = Append(SubSeq(hist, 1, idx), u) /\ idx' = idx + 1
    /\ corrDirty' = (corrDirty \/ u # Url)
    \* (a link WITHOUT prefix keeps the current locale - the effect puts the prefix back; a link with a prefix switches to it)
    /\ want' = [kind |-> "url", loc |-> IF u = None THEN ctx ELSE u]
    /\ UNCHANGED <<ctx, prev, sync, hc, updDirty, raf, handler>>

\* back / forward.  Two popstate listeners exist: the router's (registered first; it updates `location`, which makes
\* correct_locale_prefix_effect dirty) and this crate's check_history_change.  Effects are micro-tasks, and a micro-task checkpoint
\* follows every listener: the effects MAY run between the two listeners.  Pop only moves the history and arms the handler;
\* Handler is check_history_change; the effects interleave freely with it.
Pop(d) ==
    /\ AtRest /\ UNCHANGED boot
    /\ ~handler
    /\ user < MaxUser /\ user' = user + 1
    /\ idx + d \in DOMAIN hist /\ idx' = idx + d
    /\ UNCHANGED hist
    /\ handler' = TRUE
    /\ want' = [kind |-> "url", loc |-> LocOf(hist[idx + d])]
    /\ corrDirty' = (corrDirty \/ hist[idx + d] # Url)
    /\ UNCHANGED <<ctx, prev, sync, hc, updDirty, raf>>

Handler ==
    /\ handler /\ handler' = FALSE
    /\ LET pl == LocOf(Url) IN
       /\ sync' = pl /\ hc' = TRUE
       /\ SetCtx(pl)
    /\ UNCHANGED <<hist, idx, prev, corrDirty, raf, boot, user, want>>

System == RunUpdate \/ RunCorrect \/ Frame \/ Handler
Next == System
        \/ (\E l \in Locales : UserSetLocale(l))
        \/ (\E u \in Locales \cup {None} : UserNavigate(u))
        \/ Pop(-1) \/ Pop(1)

Spec == Init /\ [][Next]_vars /\ WF_vars(System)

\* ---- properties ---------------------------------------------------------------------------------
Quiescent == ~updDirty /\ ~corrDirty /\ raf = <<>> /\ ~handler

TypeOK == /\ ctx \in Locales /\ idx \in DOMAIN hist /\ prev \in Locales \cup {None} /\ sync \in Locales \cup {None}

\* at rest, the URL's prefix and the context agree
Agree == Quiescent => LocOf(Url) = ctx

\* at rest, what the user asked for last is what they got: the locale they set, or the locale of the URL they went to
Honoured == (Quiescent /\ want.kind # "none") => ctx = want.loc

\* the protocol settles (no endless bouncing between the effects) once the user stops
Settles == <>[]Quiescent

\* What TLC says (MaxUser = 3, two locales):
\*   TypeOK and Settles hold (MC_RouterSync.cfg).
\*   Agree and Honoured are REFUTED (MC_RouterSync_observations.cfg), by behaviours that start with a back / forward step that
\*   does not change the locale: check_history_change raises `history_changed_locale` and `history_changed` on every popstate,
\*   but they are only taken down by an effect run that sees a locale change / a mismatch.  Left standing,
\*     - `history_changed_locale` makes update_path_effect swallow the NEXT set_locale (the page turns French, the URL keeps its
\*       English form: Agree), and
\*     - `history_changed` makes correct_locale_prefix_effect treat the NEXT link to another locale's URL as a history step and
\*       rewrite the URL back to the current locale (Honoured).
\*   These are observations about the DESIGN as modelled here; nothing in this sandbox can run the client side (no browser), so they
\*   are not claimed as defects of the code and no listed property is decided by this module.
=============================================================================
