"""C08  A key's required arguments are the union over all locales (parser level, L1)."""
import json

import vp
from checks import loadfam
from checks.c05 import plural_oracle


def _key(c, r):
    P = c["abs"]["P"]
    kinds = {l: P["vals"][l]["k"]["k"] + ":" + json.dumps(P["vals"][l]["k"], sort_keys=True)[:0] for l in P["locs"]}
    return "sig-mix;%s;%s" % (vp.fingerprint(P["vals"]), sorted(r["tags"])[0])


def arg_expr(name, info, is_comp, view=False):
    if is_comp:
        return ('<%s> = <%s/>' % (name, name)) if view else ('<%s> = "%s"' % (name, name))
    cnt = info.get("count", "none")
    if cnt == "plural":
        return ("%s = move || 1u32" if view else "%s = 1u32") % name
    if cnt != "none":
        return ("%s = move || 1%s" if view else "%s = 1%s") % (name, cnt)
    return '%s = "V"' % name


def run_l2(run, cases, load_events, nprojects, oracle):
    """compile / no-compile: exactly the signature compiles for every locale, omitting a member or naming an unknown key does not"""
    import os
    import random
    import probe
    rng = random.Random(run.seed)
    ok = [i for i, c in enumerate(cases) if c["abs"]["extra"] == "none" and load_events.get(i + 1, {}).get("load", {}).get("outcome") == "Ok"]
    # prefer assignments whose kinds differ between locales
    if len(ok) <= nprojects:
        chosen = ok
    else:
        # every value kind at least once in a non-default locale (with a different kind in the default), then a seeded sample
        def kind_of(c, l):
            return json.dumps(c["abs"]["P"]["vals"][l]["k"], sort_keys=True).replace('"%s"' % {"en": "e", "fr": "f", "de": "d"}[l], '"_"')
        chosen, seen = [], set()
        for i in ok:
            kf = kind_of(cases[i], "fr")
            if kf not in seen and kf != kind_of(cases[i], "en"):
                seen.add(kf)
                chosen.append(i)
        rest = [i for i in ok if i not in set(chosen)]
        chosen += rng.sample(rest, max(0, nprojects - len(chosen)))
    libs, metas = [], []
    for n, i in enumerate(chosen):
        c = cases[i]
        key = load_events[i + 1]["load"]["units"][0]["keys"]["k"]
        vars_ = key["vars"] if key["kind"] == "interpol" else {}
        comps = key["comps"] if key["kind"] == "interpol" else []
        members = [(v, False) for v in sorted(vars_)] + [(k, True) for k in sorted(comps)]
        def call(ms):
            # the three back-ends of the accessor: string, Display, view
            args = "".join(", " + arg_expr(nm, vars_.get(nm, {}), ic) for nm, ic in ms)
            vargs = "".join(", " + arg_expr(nm, vars_.get(nm, {}), ic, view=True) for nm, ic in ms)
            return "\n".join("    let _ = td_string!(Locale::%s, k%s);\n    let _ = td_display!(Locale::%s, k%s).to_string();\n    let _ = td!(Locale::%s, k%s).into_view();"
                             % (l, args, l, args, l, vargs) for l in c["abs"]["P"]["locs"])
        bins = [{"name": "exact", "body": call(members), "expect": "ok", "kind": "exact", "args": [m[0] for m in members], "omitted": "none"}]
        for nm, ic in members:
            rest = [m for m in members if m[0] != nm]
            bins.append({"name": "omit_" + nm, "body": call(rest), "expect": "fail", "kind": "omit", "args": [m[0] for m in rest], "omitted": nm})
        bins.append({"name": "unknown", "body": "    let _ = td_string!(Locale::en, no_such_key);", "expect": "fail", "kind": "unknown", "args": [], "omitted": "none"})
        libs.append({"name": "c08p%d" % n, "cfg": c["cfg"], "files": c["files"], "bins": bins})
        metas.append(i)
    res = probe.negative_bins(run, libs, tag="_c08")
    trace, cases_abs = [], []
    for n, lib in enumerate(libs):
        r = res[lib["name"]]
        cases_abs.append({"id": n + 1, "abs": cases[metas[n]]["abs"]})
        if not r["lib_built"]:
            run.violation("l2-lib;" + vp.fingerprint(cases[metas[n]]["abs"]["P"]["vals"]), "a project the parser accepts does not compile", {"log": r["log"]})
            continue
        for b in lib["bins"]:
            trace.append({"ev": "Compile", "case": n + 1, "kind": b["kind"], "args": b["args"], "omitted": b["omitted"], "got": r["bins"][b["name"]]})
    trace.append({"ev": "End"})
    wd = os.path.join(run.workdir, "l2")
    os.makedirs(wd, exist_ok=True)
    tpath, cpath = os.path.join(wd, "trace.ndjson"), os.path.join(wd, "cases.ndjson")
    vp.write_ndjson(tpath, trace)
    vp.write_ndjson(cpath, cases_abs)
    summary, rejects, _ = vp.trace_validate("Trace_Fk", "Trace_Fk.cfg", wd, tpath, cpath, env={"ORACLE": oracle})
    if summary["consumed"] != summary["events"]:
        raise vp.ToolError("trace spec consumed %s of %s events" % (summary["consumed"], summary["events"]))
    run.traces += len(libs)
    run.events += summary["events"]
    for rj in rejects:
        ev = trace[rj["l"] - 1]
        run.violation("l2;%s;%s;%s" % (vp.fingerprint(cases_abs[ev["case"] - 1]["abs"]["P"]["vals"]), ev["kind"], ev["omitted"]),
                      "compile outcome %s: %s" % (ev["got"], sorted(rj["tags"])), {"event": ev, "vals": cases_abs[ev["case"] - 1]["abs"]["P"]["vals"]})
    return len(trace) - 1


def check(run):
    cases, res = loadfam.gen_cases(run, "MC_Sig", "MC_Sig.cfg")
    if len(cases) < 100:
        raise vp.ToolError("MC_Sig produced too few cases")
    oracle = plural_oracle(run, ["en", "fr", "de"], ["0", "1"])
    run.samples = [{"per_locale_entry_of_k": {l: cases[7]["abs"]["P"]["vals"][l]["k"] for l in ("en", "fr", "de")}}]
    loadfam.replay_load(run, cases, "Trace_Fk", "Trace_Fk.cfg", build_features=("json", "quote"),
                        variant="json-quote", key_of=_key, trace_env={"ORACLE": oracle})
    loadfam.replay_suppressed(run, cases, "Trace_Fk", "Trace_Fk.cfg", _key, trace_env={"ORACLE": oracle})
    import os
    evs = {e["case"]: e for e in vp.read_ndjson(os.path.join(run.workdir, "load", "trace.ndjson")) if e.get("ev") == "Load"}
    run.notes["l2_compile_events"] = run_l2(run, cases, evs, 8 if run.tier == "quick" else 60, oracle)
    run.exhaustive = True
    run.assumptions = ["one key whose value kind is chosen independently per locale among 10 kinds (text, number-like text, variable, component+variable, u8 / i8 range, plural, plural and range reached through a foreign key that renames the count, null)",
                       "L1: InterpolationKeys of parse_locales(); L2: for a seeded sample of assignments a library crate with load_locales!() and one small binary per call shape are built with "
                       "--keep-going: the exact argument set must compile for every locale, leaving out any one member or naming an unknown key must not"]
    return run.finish("every assignment of value kinds to 3 locales (default never null); non-trivial: assignments where at least two locales differ in kind",
                      {"distinct_nontrivial": sum(1 for c in cases if len({json.dumps(c["abs"]["P"]["vals"][l]["k"], sort_keys=True)[:40] for l in ("en", "fr", "de")}) > 1)})


def replay(run, path):
    rp = json.load(open(path))["replay"]
    oracle = plural_oracle(run, ["en", "fr", "de"], ["0", "1"])
    loadfam.replay_load(run, [rp["case"]], "Trace_Fk", "Trace_Fk.cfg", build_features=("json", "quote"),
                        variant="json-quote", keep_dirs=True, trace_env={"ORACLE": oracle})
    return run.finish("replay of one recorded case")
