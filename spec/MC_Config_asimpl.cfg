\* spec mutant: the validation order of the pinned implementation; TLC must find a counterexample
CONSTANTS
  RawConfigs <- MCRawConfigs
  InheritsSeesDefault = FALSE
  MaxLen = 1
  TextVariants = {1}
SPECIFICATION MCSpec
INVARIANTS Conforms
CHECK_DEADLOCK FALSE
