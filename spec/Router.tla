-------------------------------- MODULE Router --------------------------------
(* Sequences of locale switches on a URL.                                      *)
EXTENDS RouterOps

CONSTANTS LocaleSets,    \* set of [names |-> function locale -> name, default |-> locale]
          Bases,         \* set of base paths (segment sequences)
          Tables,        \* set of route tables
          Rests,         \* set of paths below the locale prefix
          MaxSwitches

VARIABLES ls, base, table, rest0, cur0, cur, rest, n, trail
vars == <<ls, base, table, rest0, cur0, cur, rest, n, trail>>

Init == /\ ls \in LocaleSets /\ base \in Bases /\ table \in Tables /\ rest0 \in Rests
        /\ cur0 \in DOMAIN ls.names /\ cur = cur0 /\ rest = rest0 /\ n = 0 /\ trail = <<>>
        \* the first segment below the prefix is not itself a locale name (such a URL is inherently ambiguous)
        /\ (rest0 = <<>> \/ \A x \in DOMAIN ls.names : ls.names[x] # rest0[1])
        \* the path is spelled in the current locale: it matches a route in that locale, or no route in any locale
        /\ (Matches(table, rest0, cur0) \/ \A x \in DOMAIN ls.names : ~Matches(table, rest0, x))

Switch(b) ==
    /\ n < MaxSwitches /\ b \in DOMAIN ls.names /\ b # cur
    /\ rest' = Localize(table, rest, cur, b)
    /\ cur' = b /\ n' = n + 1 /\ trail' = Append(trail, b)
    /\ UNCHANGED <<ls, base, table, rest0, cur0>>
Next == \E b \in DOMAIN ls.names : Switch(b)

Url == PathOf(base, cur, rest, ls.names, ls.default)

\* the URL always reads as the current locale (no prefix for the default locale)
ReadsBack == ReadLocale(Url, base, ls.names) = (IF cur = ls.default THEN None ELSE cur)
\* A route with several optional parameters around a localized segment maps two different URLs of one locale to the same URL of
\* another one when a parameter VALUE happens to be another locale's spelling of that segment (/about/a-propos and /a-propos/about
\* both become /fr/a-propos/a-propos): no rewriting can be reversible there.  Such URLs stay in the universe - the code must still
\* agree with Localize on them - but reversibility and stability are stated for URLs without such a value.
AllLocNames == UNION { { LocName[k][x] : x \in DOMAIN LocName[k] } : k \in DOMAIN LocName }
CollidingValue(m) == \E bd \in m.b : \E j \in DOMAIN bd[2] : bd[2][j] \in AllLocNames
\* switching away and back gives the original path
RoundTrip == [][\A b \in DOMAIN ls.names : Switch(b) =>
                  (Localize(table, rest', b, cur) = rest \/ CollidingValue(MatchUrl(Prefix(cur, ls.names, ls.default) \o rest, ls.names, ls.order, ls.default, table)))]_vars
\* a switch keeps the number of segments and every segment that is not a localized one
KeepsShape == [][Len(rest') = Len(rest)]_vars

\* ---- the route families see the URL the same way --------------------------------------------------------
MatchAt(c, r) == MatchUrl(Prefix(c, ls.names, ls.default) \o r, ls.names, ls.order, ls.default, table)
\* the URL of the current locale is matched by that locale's family (the prefix-less one for the default locale)
MatchedAsCurrent == Matches(table, rest, cur) =>
    LET m == MatchAt(cur, rest) IN m.matched /\ m.loc = (IF cur = ls.default THEN None ELSE cur) /\ m.route = RouteOf(table, rest, cur)
\* a switch keeps the route and every parameter binding
RouteStable == [][\A b \in DOMAIN ls.names : (Switch(b) /\ Matches(table, rest, cur)) =>
                     LET m == MatchAt(cur, rest)  m2 == MatchAt(cur', rest') IN (m2.matched /\ m2.route = m.route /\ m2.b = m.b) \/ CollidingValue(m)]_vars
=============================================================================
