------------------------------ MODULE Trace_Router ------------------------------
(* Validates the router's path functions: which locale a path reads as, and     *)
(* what a locale switch turns a URL into (path, query string, fragment).        *)
EXTENDS RouterOps, Json, IOUtils

Rec   == ndJsonDeserialize(IOEnv.TRACE)
Cases == ndJsonDeserialize(IOEnv.CASES)
VARIABLE l

KeyOfName(a, nm) == CHOOSE x \in DOMAIN a.names : a.names[x] = nm
\* segments of a raw split ("/a/b" -> <<"", "a", "b">>), empty ones dropped
NonEmpty(raw) == SelectSeq(raw, LAMBDA s : s # "")

Tags(ev) ==
    IF ev.ev = "Crash" THEN {"crash:" \o ev.outcome}
    ELSE IF ev.ev # "Url" THEN {}
    ELSE LET a == Cases[ev.case].abs IN
      IF ev.op = "read"
      THEN LET want == ReadLocale(NonEmpty(ev.path_segs), a.base, a.names) IN
           IF ev.res = (IF want = None THEN "none" ELSE a.names[want]) THEN {} ELSE {"read-locale"}
      ELSE IF ev.outcome # "Ok" THEN {"outcome:" \o ev.outcome}
      ELSE LET from == KeyOfName(a, ev.from)
               to   == KeyOfName(a, ev.to)
               inp  == NonEmpty(ev.in_segs)
               pre  == a.base \o Prefix(from, a.names, a.default) IN
           \* only inputs that are well-formed URLs of the `from` locale are judged (a previous step was already flagged otherwise)
           IF ~(Len(inp) >= Len(pre) /\ SubSeq(inp, 1, Len(pre)) = pre) THEN {}
           ELSE LET rest == SubSeq(inp, Len(pre) + 1, Len(inp))
                    want == PathOf(a.base, to, Localize(a.table, rest, from, to), a.names, a.default) IN
                (IF ev.out_segs = RawSplit(want) THEN {} ELSE {"switch-path"})
                \cup (IF ev.out_search = "a=1&l=en" THEN {} ELSE {"switch-query"})
                \cup (IF ev.out_hash = "frag-fr" THEN {} ELSE {"switch-fragment"})

TraceInit == l = 1
TraceNext ==
    /\ l <= Len(Rec)
    /\ l' = l + 1
    /\ LET tags == Tags(Rec[l]) IN
         tags = {} \/ PrintT(<<"REJECT", ToJson([l |-> l, case |-> Rec[l].case, tags |-> tags])>>)
TraceSpec == TraceInit /\ [][TraceNext]_l
Post == PrintT(<<"SUMMARY", ToJson([events |-> Len(Rec), consumed |-> TLCGet("stats").diameter - 1])>>)
=============================================================================
