------------------------------ MODULE IcuCases ------------------------------
EXTENDS IcuNeeds, Json

FmtVar(var, f) ==
    <<"LB", "LB", "SP">> \o var \o <<"COMMA", "SP">>
    \o (CASE f = "number" -> <<"n","u","m","b","e","r">>
          [] f = "date" -> <<"d","a","t","e","LP","d","a","t","e","US","l","e","n","g","t","h","COLON","SP","l","o","n","g","RP">>
          [] f = "time" -> <<"t","i","m","e">>
          [] f = "datetime" -> <<"d","a","t","e","t","i","m","e">>
          [] f = "list" -> <<"l","i","s","t","LP","l","i","s","t","US","t","y","p","e","COLON","SP","a","n","d","RP">>
          [] OTHER -> <<"c","u","r","r","e","n","c","y">>)
    \o <<"SP", "RB", "RB">>
FmtText(f) == FmtVar(<<"v">>, f)
Count == <<"c","o","u","n","t">>
IsPluralFeat(f) == f \in {"plural", "plural_number", "plural_currency", "plural_date"}
IsRangeFeat(f) == f \in {"range", "range_number"}

FeatAt(p, unit, where, loc) ==
    LET U == { u \in p.uses : u.unit = unit /\ u.where = where /\ u.loc = loc } IN
    IF U = {} THEN "plain" ELSE (CHOOSE u \in U : TRUE).feat

\* entries for the key `name` holding slot (unit, where) in locale loc
SlotEntries(p, unit, where, loc, name) ==
    LET f == FeatAt(p, unit, where, loc) IN
    IF f = "plain" THEN << <<name, StrNode(<<"x">>)>> >>
    ELSE IF IsPluralFeat(f)
    THEN << <<name \o "_one", StrNode(<<"o">>)>>,
            <<name \o "_other", StrNode(CASE f = "plural_number" -> FmtVar(Count, "number") \o <<"SP", "m">>
                                          [] f = "plural_currency" -> FmtVar(Count, "currency") \o <<"SP", "m">>
                                          [] f = "plural_date" -> <<"m", "SP">> \o FmtVar(<<"v">>, "date")
                                          [] OTHER -> <<"m">>)>> >>
    ELSE IF IsRangeFeat(f)
    THEN << <<name, SeqNode(<< SeqNode(<<StrNode(<<"o">>), RawNode("0")>>),
                               SeqNode(<<StrNode(IF f = "range_number" THEN FmtVar(Count, "number") ELSE <<"m">>)>>) >>)>> >>
    ELSE IF f = "bare" THEN << <<name, StrNode(<<"LB", "LB", "SP", "v", "SP", "RB", "RB">>)>> >>
    ELSE IF f = "bare_number" THEN << <<name, StrNode(<<"LB", "LB", "SP", "v", "SP", "RB", "RB", "SP">> \o FmtVar(<<"v">>, "number"))>> >>
    ELSE IF f = "bare_date" THEN << <<name, StrNode(FmtVar(<<"v">>, "date") \o <<"SP", "LB", "LB", "v", "RB", "RB">>)>> >>
    ELSE IF f = "number_list" THEN << <<name, StrNode(FmtVar(<<"v">>, "number") \o <<"SP">> \o FmtVar(<<"w">>, "list"))>> >>
    ELSE << <<name, StrNode(FmtText(f))>> >>

UnitFile(p, unit, loc) ==
    MapNode(SlotEntries(p, unit, "t", loc, "t")
            \o << <<"g", MapNode(SlotEntries(p, unit, "g.s", loc, "s")
                                  \o << <<"h", MapNode(SlotEntries(p, unit, "g.h.u", loc, "u"))>> >>)>> >>
            \* a key that refers to the slot t of this unit (a reference never adds or removes a need)
            \o (LET tgt == (IF p.units = 0 THEN <<>> ELSE <<"n", IF unit = 1 THEN "1" ELSE "2", "COLON">>) \o <<"t">> IN
                IF IsPluralFeat(FeatAt(p, unit, "t", loc)) \/ IsRangeFeat(FeatAt(p, unit, "t", loc))
                THEN << <<"ref", StrNode(<<"DOL","t","LP">> \o tgt \o <<"COMMA","SP","LB","QUOT","c","o","u","n","t","QUOT","COLON","SP","QUOT","LB","LB","n","RB","RB","QUOT","RB","RP">>)>> >>
                ELSE << <<"ref", StrNode(<<"DOL","t","LP">> \o tgt \o <<"RP">>)>> >>))

NsName(i) == "n" \o ToString(i)
CaseOf(p) ==
    [family |-> "icu",
     abs |-> p,
     cfg |-> [default |-> "en", locales |-> <<"en", "fr">>,
              namespaces |-> IF p.units = 0 THEN None ELSE [i \in 1..p.units |-> NsName(i)]],
     files |-> IF p.units = 0
               THEN << <<"en", UnitFile(p, 1, "en")>>, <<"fr", UnitFile(p, 1, "fr")>> >>
               ELSE Cat([i \in 1..p.units |-> << <<"en/" \o NsName(i), UnitFile(p, i, "en")>>, <<"fr/" \o NsName(i), UnitFile(p, i, "fr")>> >>])]

\* ---- project universes ----------------------------------------------------------------------
Slots(units) == { [unit |-> u, where |-> w, loc |-> x] : u \in (IF units = 0 THEN {1} ELSE 1..units), w \in Wheres, x \in {"en", "fr"} }
Singles(units) == { [units |-> units, uses |-> {Use(s.unit, s.where, s.loc, f)}] : s \in Slots(units), f \in Feats }
PairsOver(units, S, F) ==
    { [units |-> units, uses |-> {Use(s1.unit, s1.where, s1.loc, f1), Use(s2.unit, s2.where, s2.loc, f2)}]
      : s1 \in S, s2 \in S, f1 \in F, f2 \in F }
Pairs(units, S) == PairsOver(units, S, Feats)
\* the quick tier pairs the base features and two composite ones (every feature still occurs in the singles)
QuickPairFeats == BaseFeats \cup {"bare", "plural_number"}
NoUse == { [units |-> 0, uses |-> {}], [units |-> 2, uses |-> {}] }
\* a plural and a range may not share the count variable of one key: two uses on the same slot key in
\* different locales are fine for formatters and plurals (kinds mix), so pairs are unrestricted
WellFormed(p) ==
    /\ \A u1, u2 \in p.uses : (u1.unit = u2.unit /\ u1.where = u2.where /\ u1.loc = u2.loc) => u1 = u2
    /\ \A u1, u2 \in p.uses : (u1.unit = u2.unit /\ u1.where = u2.where) => ~(IsPluralFeat(u1.feat) /\ IsRangeFeat(u2.feat))

\* the same variable of the same key: printed as is in the default locale, formatted in the other one (formatters accumulate per
\* variable across locales)
CrossBare == { [units |-> u, uses |-> {Use(1, w, "en", "bare"), Use(1, w, "fr", f)}] : u \in {0, 2}, w \in Wheres, f \in BaseFeats \ {"plural"} }
QuickProjects == { p \in NoUse \cup CrossBare \cup Singles(0) \cup Singles(2)
                        \cup PairsOver(2, { s \in Slots(2) : s.loc = "fr" /\ s.where # "g.s" }, QuickPairFeats) : WellFormed(p) }
ThoroughProjects == { p \in NoUse \cup CrossBare \cup Singles(0) \cup Singles(2) \cup Pairs(0, Slots(0)) \cup Pairs(2, Slots(2)) : WellFormed(p) }

EmitCases == (frames = { <<u, "">> : u \in UnitsOf(proj) } /\ used = {}) => PrintT(<<"CASE", ToJson(CaseOf(proj))>>)
\* (the project set is named by a real constant, not substituted for `Projects` in the configuration: TLC re-evaluates a
\* substituted definition at every reference - once per initial state - while it evaluates a constant-level definition once)
CONSTANT Tier
MCProjects == IF Tier = "quick" THEN QuickProjects ELSE ThoroughProjects
MCInit == proj \in MCProjects /\ frames = { <<u, "">> : u \in UnitsOf(proj) } /\ used = {}
MCSpec == MCInit /\ [][Next]_vars /\ WF_vars(Next)
=============================================================================
