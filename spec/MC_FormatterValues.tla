------------------------- MODULE MC_FormatterValues -------------------------
(* Emits the value universe of FormatterValues as cases (one step).          *)
EXTENDS FormatterValues, Json, TLC
VARIABLE done
ListText(s) == IF s = <<>> THEN "" ELSE LET F[i \in 1..Len(s)] == IF i = 1 THEN s[1] ELSE F[i - 1] \o "," \o s[i] IN F[Len(s)]
Emit(S) == \A v \in S : PrintT(<<"CASE", ToJson([kind |-> v.kind, ty |-> v.ty, text |-> IF v.kind = "list" THEN ListText(v.items) ELSE Canon(v),
                                                  kinds |-> KindsOf(v)])>>)
Init == done = FALSE
Next == ~done /\ done' = TRUE /\ Emit(Numbers) /\ Emit(Lists) /\ Emit(Dates) /\ Emit(Times) /\ Emit(DateTimes)
Spec == Init /\ [][Next]_done
\* every numeric type has values, and every signed type a negative one
Covered == \A ty \in NumTypes : \E v \in Numbers : v.ty = ty
=============================================================================
