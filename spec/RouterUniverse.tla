---------------------------- MODULE RouterUniverse ----------------------------
(* The bounded universe shared by the router configurations: locale sets whose  *)
(* names are prefixes of each other and of ordinary words, base paths, route     *)
(* tables (the Rust driver builds the same tables T1 / T2 as real routes).       *)
EXTENDS RouterOps

CONSTANT Words
R1 == [names |-> [en |-> "en", fr |-> "fr"], default |-> "en", set |-> "R1", order |-> <<"en", "fr">>]
R2 == [names |-> [en |-> "en", enUS |-> "en-US", fr |-> "fr"], default |-> "en", set |-> "R2", order |-> <<"en", "enUS", "fr">>]
R3 == [names |-> [fr |-> "fr", fra |-> "fra", en |-> "en"], default |-> "fr", set |-> "R3", order |-> <<"fr", "fra", "en">>]
MCLocaleSets == {R1, R2, R3}
MCBases == { <<>>, <<"app">> }
T1 == << <<Loc("about")>>, <<Loc("users"), Param>>, <<St("docs"), Splat>> >>
T2 == << <<Opt, Loc("about")>>, <<St("x"), Loc("users"), Opt>> >>
T3 == << >>
\* two optional parameters in one route, a localized / a static segment between them: any subset of them may be absent from a URL
T4 == << <<Opt, Loc("about"), Opt>>, <<Opt, St("x"), Opt>> >>
MCTables == {T1, T2, T3, T4}
Segs(x) == { LocName[k][x] : k \in DOMAIN LocName }
\* paths below the prefix: up to 2 words, plus spellings of the localized segments in each locale
MCRests == { <<>> } \cup { <<a>> : a \in Words } \cup { <<a, b>> : a \in Words, b \in Words }

\* spelling of base paths given to the real code
BaseText(b) == IF b = <<>> THEN {"", "/"} ELSE {"app", "/app", "app/", "/app/"}
=============================================================================
