"""C08  A key's required arguments are the union over all locales (parser level, L1)."""
import json

import vp
from checks import loadfam
from checks.c05 import plural_oracle


def _key(c, r):
    P = c["abs"]["P"]
    kinds = {l: P["vals"][l]["k"]["k"] + ":" + json.dumps(P["vals"][l]["k"], sort_keys=True)[:0] for l in P["locs"]}
    return "sig-mix;%s;%s" % (vp.fingerprint(P["vals"]), sorted(r["tags"])[0])


def check(run):
    cases, res = loadfam.gen_cases(run, "MC_Sig", "MC_Sig.cfg")
    if len(cases) < 100:
        raise vp.ToolError("MC_Sig produced too few cases")
    oracle = plural_oracle(run, ["en", "fr", "de"], ["0", "1"])
    run.samples = [{"per_locale_entry_of_k": {l: cases[7]["abs"]["P"]["vals"][l]["k"] for l in ("en", "fr", "de")}}]
    loadfam.replay_load(run, cases, "Trace_Fk", "Trace_Fk.cfg", build_features=("json", "quote"),
                        variant="json-quote", key_of=_key, trace_env={"ORACLE": oracle})
    run.exhaustive = True
    run.assumptions = ["one key whose value kind is chosen independently per locale among 10 kinds (text, number-like text, variable, component+variable, u8 / i8 range, plural, plural and range reached through a foreign key that renames the count, null)",
                       "required-argument sets are observed as InterpolationKeys of parse_locales(); that exactly this set compiles and omitting a member does not is the L2 probe check"]
    return run.finish("every assignment of value kinds to 3 locales (default never null); non-trivial: assignments where at least two locales differ in kind",
                      {"distinct_nontrivial": sum(1 for c in cases if len({json.dumps(c["abs"]["P"]["vals"][l]["k"], sort_keys=True)[:40] for l in ("en", "fr", "de")}) > 1)})


def replay(run, path):
    rp = json.load(open(path))["replay"]
    oracle = plural_oracle(run, ["en", "fr", "de"], ["0", "1"])
    loadfam.replay_load(run, [rp["case"]], "Trace_Fk", "Trace_Fk.cfg", build_features=("json", "quote"),
                        variant="json-quote", keep_dirs=True, trace_env={"ORACLE": oracle})
    return run.finish("replay of one recorded case")
