------------------------------ MODULE ValueGen ------------------------------
(* Left-to-right pushdown generator of every well-formed value within        *)
(* bounds: the terminal states of this machine are exactly the values of the *)
(* documented grammar with at most MaxTokens pieces and nesting MaxDepth.    *)
EXTENDS Value

CONSTANTS Texts,      \* set of text atoms (symbol sequences without delimiters)
          VarNames, CompNames,   \* sets of names (symbol sequences)
          MaxTokens, MaxDepth

VARIABLES stack,    \* sequence of frames [name, items]; frame 1 is the root
          ntok, done
vars == <<stack, ntok, done>>

Init == stack = << [name |-> <<>>, items |-> <<>>] >> /\ ntok = 0 /\ done = FALSE

Top == stack[Len(stack)]
Push(piece) == stack' = [stack EXCEPT ![Len(stack)].items = @ \o <<piece>>]
LastIsText == Top.items # <<>> /\ Top.items[Len(Top.items)].k = "text"

EmitText(t) == ~done /\ ntok < MaxTokens /\ ~LastIsText /\ Push(Text(t)) /\ ntok' = ntok + 1 /\ UNCHANGED done
EmitVar(n)  == ~done /\ ntok < MaxTokens /\ Push(Var(n)) /\ ntok' = ntok + 1 /\ UNCHANGED done
Open(c)     == /\ ~done /\ ntok < MaxTokens /\ Len(stack) <= MaxDepth
               /\ stack' = stack \o << [name |-> c, items |-> <<>>] >> /\ ntok' = ntok + 1 /\ UNCHANGED done
Close       == /\ ~done /\ Len(stack) > 1
               /\ stack' = [SubSeq(stack, 1, Len(stack) - 1) EXCEPT ![Len(stack) - 1].items = @ \o <<Comp(Top.name, Top.items)>>]
               /\ UNCHANGED <<ntok, done>>
Finish      == ~done /\ Len(stack) = 1 /\ done' = TRUE /\ UNCHANGED <<stack, ntok>>

Next == (\E t \in Texts : EmitText(t)) \/ (\E n \in VarNames : EmitVar(n)) \/ (\E c \in CompNames : Open(c)) \/ Close \/ Finish

Value == stack[1].items

\* ---- properties ---------------------------------------------------------------------------
\* the generator only produces canonical values
Canonical == done => Canon(Value) = Value
\* writing a value down and splitting it again gives the value back, for every whitespace choice in WsChoices
RoundTrip(WsChoices) == done => \A ws \in WsChoices : ParseCanon(Unparse(Value, ws)) = Value
\* rendering with the identity environment reproduces the whitespace-free source text
IdEnv == [n \in {Str(x) : x \in VarNames} |-> <<"LB", "LB">> \o (CHOOSE x \in VarNames : Str(x) = n) \o <<"RB", "RB">>]
DenoteIsSource == done => Denote(Value, IdEnv) = Unparse(Value, NoWs)
Termination == <>done
=============================================================================
