------------------------------ MODULE FkResolve ------------------------------
(* The foreign-key resolution pass of the implementation on one locale:       *)
(* roots (keys whose text contains `$t(`) are visited in ANY order, each      *)
(* visit is a depth-first walk that marks a reference "borrowed" while its    *)
(* target is being resolved (the cycle detector), memoises the populated      *)
(* value in the reference node, and re-uses memoised nodes on later walks.    *)
(* PopulateEntersResolved names a point of attention: whether substituting    *)
(* arguments into a target also substitutes into references of the target     *)
(* that are already resolved.  The property (pure substitution) requires TRUE.*)
EXTENDS Subst

CONSTANTS Graphs,                  \* set of functions key -> pieces (foreign keys only at top level, args without `$t`)
          PopulateEntersResolved

VARIABLES vals, memo, roots, err
vars == <<vals, memo, roots, err>>

Keys == DOMAIN vals
NodeIds(v) == { <<k, i>> : k \in DOMAIN v, i \in 1..10 } \* superset; only fk positions are used
IsFkAt(v, id) == id[2] \in DOMAIN v[id[1]] /\ v[id[1]][id[2]].k = "fk"
FkIds(v) == { id \in { <<k, i>> : k \in DOMAIN v, i \in 1..5 } : IsFkAt(v, id) }

NotSet == [s |-> "notset", v |-> <<>>]

Init ==
    /\ vals \in Graphs
    /\ memo = [id \in FkIds(vals) |-> NotSet]
    /\ roots = { k \in DOMAIN vals : \E i \in DOMAIN vals[k] : vals[k][i].k = "fk" }
    /\ err = "none"

\* the text of key k with memoised references spliced in (unresolved ones are left as fk pieces)
RECURSIVE FlatFrom(_, _, _, _)
FlatFrom(v, m, k, i) ==
    IF i > Len(v[k]) THEN <<>>
    ELSE (IF v[k][i].k = "fk" /\ m[<<k, i>>].s = "set" THEN m[<<k, i>>].v ELSE <<v[k][i]>>) \o FlatFrom(v, m, k, i + 1)
Flat(v, m, k) == FlatFrom(v, m, k, 1)

\* what `populate` sees of target t: resolved references either entered (their memoised text takes part in
\* the substitution) or kept opaque
RECURSIVE TargetViewFrom(_, _, _, _)
TargetViewFrom(v, m, t, i) ==
    IF i > Len(v[t]) THEN <<>>
    ELSE (IF v[t][i].k = "fk" /\ m[<<t, i>>].s = "set"
          THEN (IF PopulateEntersResolved THEN m[<<t, i>>].v ELSE <<[k |-> "opaque", v |-> m[<<t, i>>].v]>>)
          ELSE <<v[t][i]>>) \o TargetViewFrom(v, m, t, i + 1)

RECURSIVE Unopaque(_)
Unopaque(ps) == IF ps = <<>> THEN <<>>
                ELSE (IF Head(ps).k = "opaque" THEN Head(ps).v ELSE <<Head(ps)>>) \o Unopaque(Tail(ps))

\* depth-first walk over key k from position i; borrowed: set of node ids being resolved
\* returns [m |-> memo', e |-> "none" | error class]
RECURSIVE WalkKey(_, _, _, _, _)
WalkKey(v, m, k, i, borrowed) ==
    IF i > Len(v[k]) THEN [m |-> m, e |-> "none"]
    ELSE IF v[k][i].k # "fk" THEN WalkKey(v, m, k, i + 1, borrowed)
    ELSE LET id == <<k, i>> IN
         IF id \in borrowed THEN [m |-> m, e |-> "cycle"]
         ELSE IF m[id].s = "set" THEN WalkKey(v, m, k, i + 1, borrowed)
         ELSE LET t == v[k][i].to IN
              IF t \notin DOMAIN v THEN [m |-> m, e |-> "missing"]
              ELSE LET r == WalkKey(v, m, t, 1, borrowed \cup {id}) IN
                   IF r.e # "none" THEN r
                   ELSE LET p == Populate(TargetViewFrom(v, r.m, t, 1), v[k][i].args, "en") IN
                        IF ~p.ok THEN [m |-> r.m, e |-> "populate"]
                        ELSE WalkKey(v, [r.m EXCEPT ![id] = [s |-> "set", v |-> Unopaque(p.v)]], k, i + 1, borrowed)

ResolveRoot(k) ==
    /\ k \in roots /\ err = "none"
    /\ LET r == WalkKey(vals, memo, k, 1, {}) IN
       /\ memo' = r.m
       /\ err' = r.e
       /\ roots' = IF r.e = "none" THEN roots \ {k} ELSE {}
    /\ UNCHANGED vals

Next == \E k \in roots : ResolveRoot(k)
Done == roots = {}

\* ---- properties -------------------------------------------------------------------------------
AsProject(v) == [def |-> "en", locs |-> <<"en">>, inh |-> << >>, vals |-> [en |-> [k \in DOMAIN v |-> [k |-> "val", v |-> v[k]]]]]

\* an error is reported iff some key cannot be resolved (cycle or missing target)
ErrorIffUnresolvable ==
    Done => ((err # "none") <=> \E k \in DOMAIN vals : ~Resolved(AsProject(vals), "en", k).ok)
\* whatever the order of the roots, every key ends up as the declarative substitution says
FinalIsSubst ==
    (Done /\ err = "none") =>
        \A k \in DOMAIN vals : CanonX(Flat(vals, memo, k)) = CanonX(Resolved(AsProject(vals), "en", k).v)
Termination == <>Done
=============================================================================
