---------------------------- MODULE MC_FkFamilies ----------------------------
(* Emits the hand-written foreign-key families of FkCases. *)
EXTENDS FkCases
VARIABLE i
ArmAll == "all"
\* one step prints every case (the sequence is built once)
Init == i = 0
Next == i = 0 /\ i' = 1 /\ LET A == Families IN \A j \in DOMAIN A : PrintT(<<"CASE", ToJson(A[j])>>)
Spec == Init /\ [][Next]_i
=============================================================================
