SPECIFICATION MCSpec
INVARIANTS ReachIsBelow EmitProject EmitAccesses
PROPERTIES ScopeKeepsLocale
CHECK_DEADLOCK FALSE
