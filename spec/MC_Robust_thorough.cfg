CONSTANTS Depths <- DepthsThorough
SPECIFICATION Spec
CHECK_DEADLOCK FALSE
