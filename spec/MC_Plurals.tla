------------------------------ MODULE MC_Plurals ------------------------------
EXTENDS Plurals, PluralsCases, Json

\* all cardinal-only / ordinal-only subsets, plus mixed sets: a single-type set with one member of the other type added
Single(ty) == { { M(f, ty) : f \in S } : S \in SUBSET Forms }
Mixed == { A \cup {M(f, "ordinal")} : A \in Single("cardinal"), f \in {"one", "other"} }
         \cup { A \cup {M(f, "cardinal")} : A \in Single("ordinal"), f \in {"one", "other"} }
MCMemberSets == (Single("cardinal") \cup Single("ordinal") \cup Mixed) \ {{}}

EmitCases == (todo = members /\ out.kind = "pending") => PrintT(<<"CASE", ToJson(CaseOf(members, baseIsKey))>>)
\* the project with several plural keys is emitted once
EmitMulti == (todo = members /\ out.kind = "pending" /\ members = {M("one", "cardinal")} /\ baseIsKey)
                => PrintT(<<"CASE", ToJson(MultiCase)>>)
MCSpec == Init /\ [][Next]_vars /\ WF_vars(Next)
=============================================================================
