------------------------------ MODULE RangesOps ------------------------------
(* C04  Ranges render the first branch that contains the count.               *)
(*                                                                            *)
(* Counts and bounds live in a small ordered domain 1..6 ("anchors"); range   *)
(* semantics depend only on order and equality, and every numeric type embeds *)
(* the domain monotonically at runs of consecutive values around its minimum, *)
(* -1/0/1 and its maximum (tables Anchor / Disp).                             *)
(*                                                                            *)
(* spec   ::= [f |-> "exact", a] | [f |-> "excl", lo, hi] | [f |-> "incl", lo, hi]   (0 = open end) *)
(*          | [f |-> "full"]  (written "..")  | [f |-> "wild"]  (written "_") *)
(* branch ::= [alts |-> sequence of spec, tag |-> n]   several alternatives = a | b / list form *)
(* decl   ::= [branches |-> sequence of branch, fb |-> fallback variant]       *)
EXTENDS Chars

Dom == 1..6

Exact(a)    == [f |-> "exact", a |-> a, lo |-> 0, hi |-> 0]
Excl(lo, hi) == [f |-> "excl", a |-> 0, lo |-> lo, hi |-> hi]
Incl(lo, hi) == [f |-> "incl", a |-> 0, lo |-> lo, hi |-> hi]
Full        == [f |-> "full", a |-> 0, lo |-> 0, hi |-> 0]
Wild        == [f |-> "wild", a |-> 0, lo |-> 0, hi |-> 0]

IsFallbackSpec(s) == s.f \in {"full", "wild"} \/ (s.f = "excl" /\ s.lo = 0 /\ s.hi = 0)

\* Rust's meaning of the forms
InSpec(s, n) ==
    CASE s.f = "exact" -> n = s.a
      [] s.f = "excl"  -> (s.lo = 0 \/ s.lo <= n) /\ (s.hi = 0 \/ n < s.hi)
      [] s.f = "incl"  -> (s.lo = 0 \/ s.lo <= n) /\ n <= s.hi
      [] OTHER         -> TRUE

BranchContains(b, n) == \E i \in DOMAIN b.alts : InSpec(b.alts[i], n)

\* a branch one of whose alternatives is a fallback form is the fallback
IsFallbackBranch(b) == \E i \in DOMAIN b.alts : IsFallbackSpec(b.alts[i])

\* index of the selected branch, 0 when no branch contains n
Select(branches, n) ==
    LET I == { i \in DOMAIN branches : BranchContains(branches[i], n) } IN
    IF I = {} THEN 0 ELSE CHOOSE i \in I : \A j \in I : i <= j

\* the 8-bit types with their real values: counts are then plain integers
AnchorInt == [i8 |-> <<-128, -1, 0, 1, 5, 127>>, u8 |-> <<0, 1, 2, 5, 254, 255>>]
InSpecInt(s, n, A) ==
    CASE s.f = "exact" -> n = A[s.a]
      [] s.f = "excl"  -> (s.lo = 0 \/ A[s.lo] <= n) /\ (s.hi = 0 \/ n < A[s.hi])
      [] s.f = "incl"  -> (s.lo = 0 \/ A[s.lo] <= n) /\ n <= A[s.hi]
      [] OTHER         -> TRUE
SelectInt(branches, n, ty) ==
    LET I == { i \in DOMAIN branches : \E j \in DOMAIN branches[i].alts : InSpecInt(branches[i].alts[j], n, AnchorInt[ty]) } IN
    IF I = {} THEN 0 ELSE CHOOSE i \in I : \A j \in I : i <= j

\* floats between the anchors: position 2i is anchor i, an odd position 2i+1 is any value strictly between anchor i and anchor i+1
\* (1 = below the first anchor, 13 = above the last).  The driver supplies the closest representable neighbours of the anchors.
InSpecHalf(s, c) ==
    CASE s.f = "exact" -> c = 2 * s.a
      [] s.f = "excl"  -> (s.lo = 0 \/ 2 * s.lo <= c) /\ (s.hi = 0 \/ c < 2 * s.hi)
      [] s.f = "incl"  -> (s.lo = 0 \/ 2 * s.lo <= c) /\ c <= 2 * s.hi
      [] OTHER         -> TRUE
SelectHalf(branches, c) ==
    LET I == { i \in DOMAIN branches : \E j \in DOMAIN branches[i].alts : InSpecHalf(branches[i].alts[j], c) } IN
    IF I = {} THEN 0 ELSE CHOOSE i \in I : \A j \in I : i <= j

\* ---- documented rejections ---------------------------------------------------
IsFloat(ty) == ty \in {"f32", "f64"}

\* an empty range: a..b with b <= a, a..=b with b < a  (the documentation calls it impossible)
EmptySpec(s) == (s.f = "excl" /\ s.lo # 0 /\ s.hi # 0 /\ s.hi <= s.lo) \/ (s.f = "incl" /\ s.lo # 0 /\ s.hi < s.lo)
\* "..=" needs an end
MalformedSpec(s) == s.f = "incl" /\ s.hi = 0
\* exclusive end at the minimum of an integer type (anchor 1): nothing can be below it
EndAtMin(s, ty) == ~IsFloat(ty) /\ s.f = "excl" /\ s.hi = 1

AllSpecs(branches) == UNION { Range(branches[i].alts) : i \in DOMAIN branches }
FallbackIdx(branches) == { i \in DOMAIN branches : IsFallbackBranch(branches[i]) }

\* "reject": the documentation promises an error; "may": the property is silent; "accept": must load
Class(branches, ty) ==
    LET F == FallbackIdx(branches) IN
    IF \E s \in AllSpecs(branches) : MalformedSpec(s) THEN "reject"
    ELSE IF \E i \in F : i # Len(branches) THEN "reject"           \* fallback not last (covers two fallbacks)
    ELSE IF IsFloat(ty) /\ F = {} THEN "reject"                      \* floats need a fallback
    ELSE IF \E s \in AllSpecs(branches) : EmptySpec(s) \/ EndAtMin(s, ty) THEN "may"
    ELSE "accept"

\* ---- concrete spelling ---------------------------------------------------------
Anchor == [
  i8  |-> << <<"DASH","1","2","8">>, <<"DASH","1">>, <<"0">>, <<"1">>, <<"5">>, <<"1","2","7">> >>,
  i16 |-> << <<"DASH","3","2","7","6","8">>, <<"DASH","1">>, <<"0">>, <<"1">>, <<"5">>, <<"3","2","7","6","7">> >>,
  i32 |-> << <<"DASH","2","1","4","7","4","8","3","6","4","8">>, <<"DASH","1">>, <<"0">>, <<"1">>, <<"5">>, <<"2","1","4","7","4","8","3","6","4","7">> >>,
  i64 |-> << <<"DASH","9","2","2","3","3","7","2","0","3","6","8","5","4","7","7","5","8","0","8">>, <<"DASH","1">>, <<"0">>, <<"1">>, <<"5">>,
             <<"9","2","2","3","3","7","2","0","3","6","8","5","4","7","7","5","8","0","7">> >>,
  u8  |-> << <<"0">>, <<"1">>, <<"2">>, <<"5">>, <<"2","5","4">>, <<"2","5","5">> >>,
  u16 |-> << <<"0">>, <<"1">>, <<"2">>, <<"5">>, <<"6","5","5","3","4">>, <<"6","5","5","3","5">> >>,
  u32 |-> << <<"0">>, <<"1">>, <<"2">>, <<"5">>, <<"4","2","9","4","9","6","7","2","9","4">>, <<"4","2","9","4","9","6","7","2","9","5">> >>,
  u64 |-> << <<"0">>, <<"1">>, <<"2">>, <<"5">>, <<"1","8","4","4","6","7","4","4","0","7","3","7","0","9","5","5","1","6","1","4">>,
             <<"1","8","4","4","6","7","4","4","0","7","3","7","0","9","5","5","1","6","1","5">> >>,
  f32 |-> << <<"DASH","1","DOT","5">>, <<"0","DOT","0">>, <<"0","DOT","5">>, <<"1","DOT","0">>, <<"2","DOT","5">>, <<"1","0","0","0","0","0","0","DOT","5">> >>,
  f64 |-> << <<"DASH","1","DOT","5">>, <<"0","DOT","0">>, <<"0","DOT","1">>, <<"1","DOT","0">>, <<"2","DOT","5">>, <<"1","0","0","0","0","0","0","DOT","5">> >>
]
\* how Rust's Display shows the anchor once it has become a literal
Disp == [ty \in DOMAIN Anchor |->
          IF ty \in {"f32", "f64"}
          THEN [Anchor[ty] EXCEPT ![2] = <<"0">>, ![4] = <<"1">>]
          ELSE Anchor[ty]]
Types == DOMAIN Anchor

SpecText(s, ty) ==
    LET A == Anchor[ty]
        B(i) == IF i = 0 THEN <<>> ELSE A[i] IN
    CASE s.f = "exact" -> A[s.a]
      [] s.f = "excl"  -> B(s.lo) \o <<"DOT", "DOT">> \o B(s.hi)
      [] s.f = "incl"  -> B(s.lo) \o <<"DOT", "DOT", "EQ">> \o B(s.hi)
      [] s.f = "full"  -> <<"DOT", "DOT">>
      [] OTHER         -> <<"US">>

RECURSIVE JoinPipe(_, _)
JoinPipe(alts, ty) ==
    IF Len(alts) = 1 THEN SpecText(alts[1], ty)
    ELSE SpecText(alts[1], ty) \o <<"SP", "PIPE", "SP">> \o JoinPipe(Tail(alts), ty)

BranchTag(i) == <<"b", (<<"0","1","2","3","4","5","6","7","8","9">>)[i + 1]>>
=============================================================================
