"""C07  Key sets are checked against the default locale, with exact diagnostics."""
import json

import vp
from checks import loadfam


def _key(c, r):
    return "def=%s;loc=%s;%s" % (json.dumps(c["abs"]["def"], sort_keys=True), json.dumps(c["abs"]["loc"], sort_keys=True),
                                sorted(r["tags"])[0])


def check(run):
    cfg = "MC_Keys_quick.cfg" if run.tier == "quick" else "MC_Keys_thorough.cfg"
    cases, res = loadfam.gen_cases(run, "MC_Keys", cfg)
    if len(cases) < 10:
        raise vp.ToolError("MC_Keys produced too few cases")
    run.samples = [{"default_tree": c["abs"]["def"], "locale_tree": c["abs"]["loc"]} for c in cases[len(cases) // 2: len(cases) // 2 + 2]]
    # default build and the suppress_key_warnings build
    loadfam.replay_load(run, cases, "Trace_Keys", "Trace_Keys.cfg", key_of=_key, tag="_default",
                        trace_env={"SUPPRESS": "0"})
    loadfam.replay_load(run, cases, "Trace_Keys", "Trace_Keys.cfg", build_features=("json", "suppress"),
                        variant="json-suppress", key_of=lambda c, r: "suppress;" + _key(c, r), tag="_suppress",
                        trace_env={"SUPPRESS": "1"})
    run.exhaustive = True
    run.assumptions = ["key universe {k1,k2,x{u},g{s1,s2,y,h{t,z}}}; every per-locale tree over it (bounded per tier) against 4 default trees",
                       "each project has the same tree in a locale without inherits (fr) and one with `inherits` (de)",
                       "accessibility of keys from generated code (compile / no-compile) is observed by the L2 checks, not here"]
    return run.finish("one project per (default tree, locale tree); non-trivial when the trees differ",
                      {"distinct_nontrivial": sum(1 for c in cases if c["abs"]["def"] != c["abs"]["loc"])})


def replay(run, path):
    rp = json.load(open(path))["replay"]
    sup = "1" if rp.get("key", "").startswith("suppress") else "0"
    loadfam.replay_load(run, [rp["case"]], "Trace_Keys", "Trace_Keys.cfg", keep_dirs=True, trace_env={"SUPPRESS": sup})
    return run.finish("replay of one recorded case")
