----------------------------- MODULE PluralsOps -----------------------------
(* C05  Plural forms are selected by the locale's CLDR plural rules.          *)
(*                                                                            *)
(* A suffixed key is  base "_" form  or  base "_ordinal_" form.  The members  *)
(* of one base become a single plural key iff there are at least two of them  *)
(* and one is `_other`; mixing cardinal and ordinal members, or a normal key  *)
(* of the same name, is an error; otherwise the members stay ordinary keys.   *)
(* CLDR itself is an oracle outside the model: Cat / Categories are data.     *)
EXTENDS Common

Forms    == {"zero", "one", "two", "few", "many", "other"}
NonOther == Forms \ {"other"}
RuleTypes == {"cardinal", "ordinal"}

\* member: [form, ty];  a base's members are a set of members
M(form, ty) == [form |-> form, ty |-> ty]

KeyName(base, m) == base \o (IF m.ty = "ordinal" THEN "_ordinal_" ELSE "_") \o m.form

\* ---- the merge rule ------------------------------------------------------------
\* result: [kind |-> "plain"]                       members stay ordinary keys
\*         [kind |-> "plural", ty, forms]            one key `base`
\*         [kind |-> "error", why]
Merge(members, baseIsKey) ==
    IF Cardinality(members) < 2 \/ ~\E m \in members : m.form = "other" THEN [kind |-> "plain"]
    ELSE IF \E m1, m2 \in members : m1.ty # m2.ty THEN [kind |-> "error", why |-> "mixed"]
    ELSE IF baseIsKey THEN [kind |-> "error", why |-> "collision"]
    ELSE [kind |-> "plural", ty |-> (CHOOSE m \in members : TRUE).ty, forms |-> { m.form : m \in members }]

\* the form rendered for a count whose CLDR category is `cat`
FormFor(forms, cat) == IF cat \in forms THEN cat ELSE "other"

\* forms the locale's rules can never select (cats: the categories the rules of that locale/type have)
Unused(forms, cats) == forms \ cats
=============================================================================
