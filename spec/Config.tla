------------------------------- MODULE Config -------------------------------
(* The steps the implementation takes on a raw configuration, one action per *)
(* step, in the implementation's order.  The constant InheritsSeesDefault    *)
(* names a deliberate point of attention: whether the `inherits` validation  *)
(* (which runs while deserialising, before the default locale is added to    *)
(* the list) treats the default locale as a known locale.  The property      *)
(* requires TRUE.                                                            *)
EXTENDS ConfigOps

CONSTANTS RawConfigs, InheritsSeesDefault

VARIABLES raw, pc, locs, result
vars == <<raw, pc, locs, result>>

Init == raw \in RawConfigs /\ pc = "split" /\ locs = <<>> /\ result = None

Fail(e) == pc' = "done" /\ result' = Err(e) /\ UNCHANGED <<raw, locs>>

Split ==
    /\ pc = "split"
    /\ IF raw.section THEN pc' = "deser" /\ UNCHANGED <<raw, locs, result>> ELSE Fail("no-section")

\* serde visitor: required fields, then the inherits table is validated against `locales` as written
Deser ==
    /\ pc = "deser"
    /\ IF raw.default = None THEN Fail("missing-default")
       ELSE IF ~raw.locales.p THEN Fail("missing-locales")
       ELSE LET inh == raw.inherits.v
                known == Range(raw.locales.v) \cup (IF InheritsSeesDefault THEN {raw.default} ELSE {}) IN
            IF \E i \in DOMAIN inh : inh[i][1] \notin known \/ inh[i][2] \notin known
            THEN Fail("inherits-unknown-locale")
            ELSE IF \E i \in DOMAIN inh : inh[i][1] = raw.default THEN Fail("default-inherits")
            ELSE pc' = "putdefault" /\ locs' = raw.locales.v /\ UNCHANGED <<raw, result>>

\* default swapped to the front, or appended and swapped
PutDefaultFirst ==
    /\ pc = "putdefault"
    /\ LET idx == {i \in DOMAIN locs : locs[i] = raw.default} IN
       IF idx # {}
       THEN LET i == CHOOSE j \in idx : \A k \in idx : j <= k IN
            locs' = [locs EXCEPT ![1] = locs[i], ![i] = locs[1]]
       ELSE LET ext == locs \o <<raw.default>>
                n == Len(ext) IN
            locs' = [ext EXCEPT ![1] = ext[n], ![n] = ext[1]]
    /\ pc' = "dupcheck" /\ UNCHANGED <<raw, result>>

DupCheck ==
    /\ pc = "dupcheck"
    /\ IF HasDup(locs) THEN Fail("duplicate-locales")
       ELSE IF raw.namespaces.p /\ HasDup(raw.namespaces.v) THEN Fail("duplicate-namespaces")
       ELSE /\ pc' = "done"
            /\ result' = Ok([default |-> raw.default, locales |-> locs, namespaces |-> raw.namespaces,
                             dir |-> IF raw.dir = None THEN "locales" ELSE raw.dir,
                             inherits |-> Range(raw.inherits.v)])
            /\ UNCHANGED <<raw, locs>>

Next == Split \/ Deser \/ PutDefaultFirst \/ DupCheck

\* ---- properties ------------------------------------------------------------
Conforms ==
    pc = "done" =>
        LET n == Normalise(raw) IN
        /\ result.ok = n.ok
        /\ n.ok => /\ result.v.locales[1] = raw.default            \* default first
                   /\ Range(result.v.locales) = n.v.locales         \* same set ...
                   /\ ~HasDup(result.v.locales)                      \* ... each once
                   /\ result.v.default = n.v.default /\ result.v.namespaces = n.v.namespaces
                   /\ result.v.dir = n.v.dir /\ result.v.inherits = n.v.inherits
Termination == <>(pc = "done")
=============================================================================
