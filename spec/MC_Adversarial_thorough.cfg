CONSTANTS
  Lexemes <- MCLexemes
  MaxLex = 5
SPECIFICATION MCSpec
INVARIANTS ParseTotal PlainIsLiteral EmitCases
CHECK_DEADLOCK FALSE
