CONSTANTS
  Requests <- MCRequests
  Avails <- MCAvails
  Defaults <- MCDefaults
  SortScope = "per_request"
  MaxReq = 3
  MaxAvail = 3
SPECIFICATION MCSpec
INVARIANTS HonoursPreference AlwaysSupported EmitCases EmitReqs
PROPERTY Termination
CHECK_DEADLOCK FALSE
