--------------------------- MODULE Trace_Fallback ---------------------------
(* Validates what the real pipeline computed for the C03 projects against    *)
(* the declarative rule Source (re-evaluated here on the abstract case).     *)
EXTENDS FallbackCases, Json, IOUtils

Rec   == ndJsonDeserialize(IOEnv.TRACE)
Cases == ndJsonDeserialize(IOEnv.CASES)

VARIABLE l

\* tags for one value key at one level of the projected key tree
KeyTags(level, name, syms, pres, a, interp) ==
    IF name \notin DOMAIN level THEN {"nokey:" \o name}
    ELSE LET e == level[name]
             locs == <<a.def>> \o a.nondef IN
         IF e.t # "value" THEN {"notvalue:" \o name}
         ELSE UNION { LET x == locs[i]
                          p == IF x = a.def THEN "def" ELSE pres[x]
                          src == Source(x, a.inh, pres, a.def) IN
                        (IF e.src[x] # src THEN {"src:" \o name \o ":" \o x} ELSE {})
                        \cup (IF e.vals[x] # ExpectValX(x, a.def, syms, p, interp) THEN {"val:" \o name \o ":" \o x} ELSE {})
                        \cup (IF x # a.def /\ p # "def"
                                 /\ ~(src \in DOMAIN e.computed /\ x \in Range(e.computed[src]))
                              THEN {"computed:" \o name \o ":" \o x} ELSE {})
                        \cup (IF \E t \in DOMAIN e.computed : x \in Range(e.computed[t]) /\ (p = "def" \/ t # src)
                              THEN {"computed+:" \o name \o ":" \o x} ELSE {})
                      : i \in DOMAIN locs }

CaseTags(ev) ==
    LET c == Cases[ev.case]
        a == c.abs IN
    IF ev.load.outcome # "Ok" THEN {"outcome:" \o ev.load.outcome}
    ELSE LET top == ev.load.units[1].keys IN
         UNION { LET k == a.keys[i] IN
                   IF k.kind \in {"v", "i"} THEN KeyTags(top, k.name, k.syms, k.pres, a, k.kind = "i")
                   ELSE IF k.name \notin DOMAIN top THEN {"nokey:" \o k.name}
                   ELSE IF top[k.name].t # "sub" THEN {"notgroup:" \o k.name}
                   ELSE UNION { KeyTags(top[k.name].keys, k.leaves[j].name,
                                        k.syms \o <<"DOT">> \o k.leaves[j].syms,
                                        Eff(k.gp, k.leaves[j].pres), a, FALSE) : j \in DOMAIN k.leaves }
                 : i \in DOMAIN a.keys }

\* L2: what the generated accessor renders for key j (leaf q of a group, 0 for a value key) in locale x:
\* the text written in the file of the locale the key falls back to
RenderTags(ev) ==
    LET a == Cases[ev.case].abs
        k == a.keys[ev.j]
        pres == IF k.kind \in {"v", "i"} THEN k.pres ELSE Eff(k.gp, k.leaves[ev.q].pres)
        syms == IF k.kind \in {"v", "i"} THEN k.syms ELSE k.syms \o <<"DOT">> \o k.leaves[ev.q].syms
        src == Source(ev.locale, a.inh, pres, a.def) IN
    IF ev.outcome # "Ok" THEN {"render-outcome:" \o ev.outcome}
    ELSE IF ev.out = TextOf(src, syms) \o (IF k.kind = "i" THEN <<"SP">> \o XVal ELSE <<>>) THEN {} ELSE {"rendered-locale:" \o k.name \o ":" \o ev.locale}

Tags(ev) == IF ev.ev = "Load" THEN CaseTags(ev)
            ELSE IF ev.ev = "Render" THEN RenderTags(ev)
            ELSE IF ev.ev = "Crash" THEN {"crash:" \o ev.outcome}
            ELSE {}

TraceInit == l = 1
TraceNext ==
    /\ l <= Len(Rec)
    /\ l' = l + 1
    /\ LET tags == Tags(Rec[l]) IN
         tags = {} \/ PrintT(<<"REJECT", ToJson([l |-> l, case |-> Rec[l].case, tags |-> tags])>>)
TraceSpec == TraceInit /\ [][TraceNext]_l

Post == PrintT(<<"SUMMARY", ToJson([events |-> Len(Rec), consumed |-> TLCGet("stats").diameter - 1])>>)
=============================================================================
