----------------------------- MODULE MC_ManyAlts -----------------------------
EXTENDS ManyAlts, Json, TLC
VARIABLE done
Init == done = FALSE
Next == ~done /\ PrintT(<<"CASE", ToJson(Case)>>) /\ done' = TRUE
Spec == Init /\ [][Next]_done
\* the universe is not vacuous: every key has counts in a first branch only through a bridging alternative, shadowed counts, and
\* counts nothing covers
NonVacuous == \A k \in DOMAIN Keys : /\ \E c \in DomOf[k] : Shown(k, c) = Other
                                      /\ \E d \in DomOf[k] : Shown(k, d) = BranchText(1) /\ ~Covers(SubSeq(Keys[k][1], 1, 2), d)
=============================================================================
