CONSTANTS
  Locs = {"en", "fr", "de"}
  Default = "en"
  HeaderSpellings = {"spaced"}
  HeaderToks = {"fr", "it"}
  MaxCtx = 3
  MaxViews = 4
  MaxAccs = 2
  Mode = "c16"
  AccSet = "base"
  SubVariants = "small"
  MaxHist = 99
SPECIFICATION MCSpec
INVARIANTS TypeOK
PROPERTIES SetIsolation CreateIsolation
VIEW NoHist
CHECK_DEADLOCK FALSE
