------------------------------ MODULE Trace_Fk ------------------------------
(* Validates, for projects with foreign keys, the resolved value of every key *)
(* in every locale, the fallback source, the key signature and the error      *)
(* class against the declarative substitution of module Subst.                *)
EXTENDS FkCases

Rec   == ndJsonDeserialize(IOEnv.TRACE)
Cases == ndJsonDeserialize(IOEnv.CASES)

VARIABLE l

DefaultTree == [lit |-> "none", c |-> << [k |-> "default"] >>]

RECURSIVE SamePieces(_, _)
SamePieces(got, exp) ==
    /\ Len(got) = Len(exp)
    /\ \A i \in DOMAIN exp :
         /\ got[i].k = exp[i].k
         /\ CASE exp[i].k = "comp" -> got[i].n = exp[i].n /\ SamePieces(got[i].c, exp[i].c)
              [] exp[i].k = "ranges" -> /\ got[i].ty = exp[i].ty /\ got[i].ck = exp[i].ck /\ Len(got[i].b) = Len(exp[i].b)
                                        /\ \A j \in DOMAIN exp[i].b : SamePieces(got[i].b[j], exp[i].b[j])
              [] exp[i].k = "plurals" -> /\ got[i].rt = exp[i].rt /\ got[i].ck = exp[i].ck /\ DOMAIN got[i].forms = DOMAIN exp[i].forms
                                         /\ \A f \in DOMAIN exp[i].forms : SamePieces(got[i].forms[f], exp[i].forms[f])
              [] OTHER -> got[i] = exp[i]
\* how a file format types an integer literal is its own business (JSON: unsigned when it can, JSON5 / YAML readers: signed):
\* the two integer types are interchangeable here, the text is what counts
SameLit(a, b) == a = b \/ {a, b} \subseteq {"Unsigned", "Signed"}
SameTree(got, exp) == SameLit(got.lit, exp.lit) /\ SamePieces(got.c, exp.c)

Own(P, x, k) == EntryOf(P, x, k).k \notin {"abs", "null", "group"}

KeyTags(P, names, keys, k) ==
    LET nm == names[k] IN
    IF nm \notin DOMAIN keys THEN {"nokey:" \o nm}
    ELSE LET e == keys[nm]
             owners == { x \in Range(P.locs) : Own(P, x, k) }
             res == [x \in owners |-> Resolved(P, x, k).v]
             expVars == UNION { VarsIn(res[x]) : x \in owners } \cup { c[1] : c \in UNION { CountsIn(res[x]) : x \in owners } }
             expComps == UNION { CompsIn(res[x]) : x \in owners }
             expCounts == UNION { CountsIn(res[x]) : x \in owners } IN
         UNION { (IF Own(P, x, k)
                  THEN (LET ent == EntryOf(P, x, k)
                            want == IF ent.k = "lit" THEN [lit |-> ent.ty, c |-> PiecesX(<<Text(ent.disp)>>)] ELSE TreeX(res[x]) IN
                        IF SameTree(e.vals[x], want) THEN {} ELSE {"value:" \o nm \o ":" \o x})
                  ELSE (IF e.vals[x] = DefaultTree THEN {} ELSE {"not-defaulted:" \o nm \o ":" \o x}))
                 \cup (IF e.src[x] = SourceOf(P, x, k) THEN {} ELSE {"src:" \o nm \o ":" \o x})
               : x \in Range(P.locs) }
         \cup (IF DOMAIN e.vars = expVars THEN {} ELSE {"sig-vars:" \o nm})
         \cup (IF Range(e.comps) = expComps THEN {} ELSE {"sig-comps:" \o nm})
         \cup (IF \A c \in expCounts : c[1] \in DOMAIN e.vars /\ e.vars[c[1]].count = c[2] THEN {} ELSE {"sig-count:" \o nm})
         \cup (IF \A v \in DOMAIN e.vars : e.vars[v].count = None \/ <<v, e.vars[v].count>> \in expCounts THEN {} ELSE {"sig-count+:" \o nm})

\* every reference WRITTEN in an entry (inside pieces, components, range arms, plural forms, and inside reference arguments)
RECURSIVE FksInPieces(_)
FksInPieces(ps) ==
    UNION { IF ps[i].k = "fk" THEN {ps[i].to} \cup UNION { IF ps[i].args[j].a.k = "pieces" THEN FksInPieces(ps[i].args[j].a.c) ELSE {} : j \in DOMAIN ps[i].args }
            ELSE IF ps[i].k = "comp" THEN FksInPieces(ps[i].c) ELSE {}
          : i \in DOMAIN ps }
FksInEntry(e) == IF e.k = "val" THEN FksInPieces(e.v)
                 ELSE IF e.k = "ranges" THEN UNION { FksInPieces(e.b[j].v) : j \in DOMAIN e.b }
                 ELSE IF e.k = "plurals" THEN UNION { FksInPieces(e.forms[f]) : f \in DOMAIN e.forms }
                 ELSE {}
\* "an error naming the key": when the error text quotes the target of a reference written somewhere in the project, it must
\* also quote a key that really holds a reference to that target (in some locale) - not a key further up a chain of references
\* that merely leads to it.  Independent of the wording and of the order in which the message quotes things.
TargetText(names, t) == IF t \in DOMAIN names THEN names[t] ELSE t
AttributionTags(P, names, ld) ==
    LET Q == Range(ld.errQuoted)
        holders == { <<k, t>> \in (DOMAIN names) \X UNION { UNION { FksInEntry(P.vals[x][k]) : k \in DOMAIN P.vals[x] } : x \in Range(P.locs) } :
                       \E x \in Range(P.locs) : k \in DOMAIN P.vals[x] /\ t \in FksInEntry(P.vals[x][k]) }
        projectNames == { names[k] : k \in DOMAIN names } \cup { TargetText(names, h[2]) : h \in holders }
        QP == Q \cap projectNames IN
    \* one name of the project quoted (a cycle, an explicit default ...): nothing to relate.  Two names quoted: one of them is the key,
    \* the other the target, and that key must hold a reference to that target.
    IF "NS" \in DOMAIN IOEnv \/ Cardinality(QP) # 2 THEN {}
    ELSE IF \E h \in holders : names[h[1]] \in QP /\ TargetText(names, h[2]) \in QP /\ names[h[1]] # TargetText(names, h[2]) THEN {}
    ELSE {"error-attributed-to-a-key-that-does-not-hold-that-reference"}

CaseTags(ev) ==
    LET a == Cases[ev.case].abs
        P == a.P
        o == ev.load.outcome
        bad == { <<x, k>> \in Range(P.locs) \X DOMAIN P.vals[P.def] : Own(P, x, k) /\ ~Resolved(P, x, k).ok }
        bad2 == { <<x, k>> \in bad : k \in DOMAIN P.vals[x] } IN
    IF o \notin {"Ok", "Err"} THEN {"outcome:" \o o}
    ELSE IF a.extra = "must-fail" THEN (IF o = "Err" THEN {} ELSE {"conflicting-count-kinds-accepted"})
    \* module Numbers: a number that neither a 64-bit integer nor a double can hold is refused, never shown as something else
    ELSE IF a.extra = "must-refuse" THEN (IF o = "Err" THEN {} ELSE {"unrepresentable-number-accepted"})
    ELSE IF bad # {}
         THEN IF o # "Err" THEN {"must-reject-got-Ok"}
              ELSE (IF \E b \in bad : a.names[b[2]] \in Range(ev.load.errQuoted) THEN {} ELSE {"error-does-not-name-a-key"})
                   \cup AttributionTags(P, a.names, ev.load)
    ELSE IF o = "Err" THEN (IF a.extra = "may" THEN {} ELSE {"must-accept-got-Err"})
    ELSE UNION { IF P.vals[P.def][k].k = "group" THEN {} ELSE KeyTags(P, a.names, ev.load.units[1].keys, k)
                 : k \in DOMAIN P.vals[P.def] }

\* L2 (C08): compile / no-compile of accessor calls.  ev.args: the argument names the call passed;
\* kind "exact": must compile;  "omit": one member left out, must NOT compile;  "unknown": a key that does not exist, must NOT compile
CompileTags(ev) ==
    LET P == Cases[ev.case].abs.P
        owners == { x \in Range(P.locs) : Own(P, x, "k") }
        res == [x \in owners |-> Resolved(P, x, "k").v]
        sig == UNION { VarsIn(res[x]) : x \in owners } \cup { c[1] : c \in UNION { CountsIn(res[x]) : x \in owners } }
               \cup UNION { CompsIn(res[x]) : x \in owners } IN
    CASE ev.kind = "exact" -> (IF Range(ev.args) # sig THEN {"harness-args-differ-from-signature"} ELSE {})
                              \cup (IF ev.got = "ok" THEN {} ELSE {"exact-argument-set-does-not-compile"})
      [] ev.kind = "omit" -> (IF ev.omitted \in sig /\ Range(ev.args) = sig \ {ev.omitted} THEN {} ELSE {"harness-args-differ-from-signature"})
                             \cup (IF ev.got = "fail" THEN {} ELSE {"compiles-without:" \o ev.omitted})
      [] OTHER -> (IF ev.got = "fail" THEN {} ELSE {"unknown-key-compiles"})

\* L2 (C06): what the generated accessor of key ev.key rendered in ev.locale with the given environment
RenderTags(ev) ==
    LET P == Cases[ev.case].abs.P
        r == Resolved(P, ev.locale, ev.key) IN
    IF ~r.ok THEN {"harness-rendered-an-unresolvable-key"}
    ELSE IF ev.outcome # "Ok" THEN {"render-outcome:" \o ev.outcome}
    ELSE LET exp == RenderX(r.v, ev.env, ev.counts, ev.locale) IN
         IF HasNoBranch(exp) THEN {}
         ELSE IF ev.out = exp THEN {} ELSE {"rendered:" \o ev.flav \o ":" \o ev.locale \o ":" \o ev.key}

Tags(ev) == IF ev.ev = "Load" THEN CaseTags(ev)
            ELSE IF ev.ev = "Render" THEN RenderTags(ev)
            ELSE IF ev.ev = "Compile" THEN CompileTags(ev)
            ELSE IF ev.ev = "Crash" THEN {"crash:" \o ev.outcome}
            ELSE {}

TraceInit == l = 1
TraceNext ==
    /\ l <= Len(Rec)
    /\ l' = l + 1
    /\ LET tags == Tags(Rec[l]) IN
         tags = {} \/ PrintT(<<"REJECT", ToJson([l |-> l, case |-> Rec[l].case, tags |-> tags])>>)
TraceSpec == TraceInit /\ [][TraceNext]_l

Post == PrintT(<<"SUMMARY", ToJson([events |-> Len(Rec), consumed |-> TLCGet("stats").diameter - 1])>>)
=============================================================================
