--------------------------- MODULE FallbackCases ---------------------------
(* Case construction for C03: one project per inherits map, carrying every  *)
(* presence pattern as a distinct key (value keys and two-leaf groups), and *)
(* the expectation operators used by the trace specification.               *)
EXTENDS FallbackOps

LocSym == [en |-> <<"e","n">>, fr |-> <<"f","r">>, de |-> <<"d","e">>, es |-> <<"e","s">>, it |-> <<"i","t">>]
PCode  == [def |-> "d", null |-> "n", abs |-> "a"]
Rot    == [def |-> "null", null |-> "abs", abs |-> "def"]

\* text written for key path `ks` (symbols) in locale l
TextOf(l, ks) == LocSym[l] \o <<"COLON">> \o ks

\* presence code of a pattern over the locale sequence L
Code(p, L) == [i \in DOMAIN L |-> PCode[p[L[i]]]]

\* abstract keys of the project for locale sequence L (the non-default locales)
ValueKeys(L) ==
    LET PS == SortedSeq([Range(L) -> P3]) IN
    [i \in DOMAIN PS |-> [kind |-> "v", syms |-> <<"v">> \o Code(PS[i], L),
                          name |-> Str(<<"v">> \o Code(PS[i], L)), pres |-> PS[i]]]
    \* the same patterns once more as *interpolated* keys (text followed by a variable): generated code takes another path
    \* (builder + per-locale match arms) for these than for plain literals
    \o [i \in DOMAIN PS |-> [kind |-> "i", syms |-> <<"i">> \o Code(PS[i], L),
                             name |-> Str(<<"i">> \o Code(PS[i], L)), pres |-> PS[i]]]

\* with more than two non-default locales only one leaf pattern per group pattern is generated (the rotation of the group's)
GroupKeys(L) ==
    LET PS == SortedSeq([Range(L) -> P3])
        PP == IF Len(L) <= 2 THEN SortedSeq(Range(PS) \X Range(PS))
              ELSE [i \in DOMAIN PS |-> <<PS[i], [x \in Range(L) |-> Rot[PS[i][x]]]>>] \o [i \in DOMAIN PS |-> <<[x \in Range(L) |-> "def"], PS[i]>>] IN
    [i \in DOMAIN PP |->
        LET gp == PP[i][1]  lp == PP[i][2]
            syms == <<"g">> \o Code(gp, L) \o <<"x">> \o Code(lp, L) IN
        [kind |-> "g", syms |-> syms, name |-> Str(syms), gp |-> gp,
         leaves |-> << [name |-> "s", syms |-> <<"s">>, pres |-> lp],
                       [name |-> "t", syms |-> <<"t">>, pres |-> [l \in Range(L) |-> Rot[lp[l]]]] >>]]

AbsKeys(L) == ValueKeys(L) \o GroupKeys(L)

\* effective presence of a leaf in locale l: an absent or null group defines nothing
Eff(gp, lp) == [l \in DOMAIN gp |-> IF gp[l] = "def" THEN lp[l] ELSE "abs"]

\* ---- file contents -------------------------------------------------------
VarTail == <<"SP", "LB", "LB", "SP", "x", "SP", "RB", "RB">>
ValueEntryX(l, isDef, nameSyms, name, p, interp) ==
    IF isDef \/ p = "def" THEN << <<name, StrNode(TextOf(l, nameSyms) \o (IF interp THEN VarTail ELSE <<>>))>> >>
    ELSE IF p = "null" THEN << <<name, NullNode>> >>
    ELSE <<>>
ValueEntry(l, isDef, nameSyms, name, p) ==
    IF isDef \/ p = "def" THEN << <<name, StrNode(TextOf(l, nameSyms))>> >>
    ELSE IF p = "null" THEN << <<name, NullNode>> >>
    ELSE <<>>

KeyEntries(l, isDef, k) ==
    IF k.kind \in {"v", "i"} THEN ValueEntryX(l, isDef, k.syms, k.name, IF isDef THEN "def" ELSE k.pres[l], k.kind = "i")
    ELSE LET g == IF isDef THEN "def" ELSE k.gp[l] IN
         IF g = "abs" THEN <<>>
         ELSE IF g = "null" THEN << <<k.name, NullNode>> >>
         ELSE << <<k.name, MapNode(Cat([j \in DOMAIN k.leaves |->
                     ValueEntry(l, isDef, k.syms \o <<"DOT">> \o k.leaves[j].syms, k.leaves[j].name,
                                IF isDef THEN "def" ELSE k.leaves[j].pres[l])]))>> >>

FileOf(l, isDef, keys) == MapNode(Cat([i \in DOMAIN keys |-> KeyEntries(l, isDef, keys[i])]))

InhField(I, L) ==
    LET E == SelectSeq(L, LAMBDA l : I[l] # None) IN
    [i \in DOMAIN E |-> <<E[i], I[E[i]]>>]

CaseOf(I, def, L) ==
    LET keys == AbsKeys(L) IN
    [family |-> "fallback",
     abs   |-> [def |-> def, nondef |-> L, inh |-> I, keys |-> keys],
     cfg   |-> [default |-> def, locales |-> <<def>> \o L, inherits |-> InhField(I, L)],
     files |-> [i \in 1..(Len(L) + 1) |->
                  IF i = 1 THEN <<def, FileOf(def, TRUE, keys)>>
                  ELSE <<L[i-1], FileOf(L[i-1], FALSE, keys)>>]]

\* ---- expectations (used by Trace_Fallback) -------------------------------
TextTree(s)  == [lit |-> "String", c |-> << [k |-> "text", s |-> s, tab |-> s] >>]
DefaultTree  == [lit |-> "none", c |-> << [k |-> "default"] >>]

NoFmt == [name |-> "none", args |-> <<>>]
InterpTree(s) == [lit |-> "none", c |-> << [k |-> "text", s |-> s \o <<"SP">>, tab |-> s \o <<"SP">>], [k |-> "var", n |-> "x", f |-> NoFmt] >>]
ExpectVal(l, def, nameSyms, p) ==
    IF l = def \/ p = "def" THEN TextTree(TextOf(l, nameSyms)) ELSE DefaultTree
ExpectValX(l, def, nameSyms, p, interp) ==
    IF ~interp THEN ExpectVal(l, def, nameSyms, p)
    ELSE IF l = def \/ p = "def" THEN InterpTree(TextOf(l, nameSyms)) ELSE DefaultTree
XVal == <<"X", "1">>
=============================================================================
