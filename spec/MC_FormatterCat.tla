--------------------------- MODULE MC_FormatterCat ---------------------------
(* Prints what every text of the runtime catalogue means (the options the     *)
(* driver must hand to ICU4X directly).  CAT: JSON object key -> symbols.      *)
EXTENDS FormatterOps, Json, IOUtils
Catalogue == JsonDeserialize(IOEnv.CAT)
VARIABLE i
Keys == SortedSeq(DOMAIN Catalogue)
Init == i = 1
Next == i <= Len(Keys) /\ i' = i + 1
        /\ PrintT(<<"CASE", ToJson([key |-> Keys[i], meaning |-> MeaningOfText(Catalogue[Keys[i]])])>>)
Spec == Init /\ [][Next]_i
=============================================================================
