CONSTANTS N = 70
SPECIFICATION Spec
CHECK_DEADLOCK FALSE
