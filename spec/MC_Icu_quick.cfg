CONSTANTS
  Projects <- NoUse
  Tier = "quick"
SPECIFICATION MCSpec
INVARIANTS ExactlyNeeds NeverTooMuch EmitCases
PROPERTY Termination
CHECK_DEADLOCK FALSE
