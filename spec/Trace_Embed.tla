------------------------------ MODULE Trace_Embed ------------------------------
(* Validates the script a server render embeds for hydration: a valid script     *)
(* whose decoded value lists exactly the touched translation units with exactly  *)
(* their string tables (taken from the parser's Load events of the same project).*)
EXTENDS Common, Json, IOUtils

Rec     == ndJsonDeserialize(IOEnv.TRACE)
LoadRec == ndJsonDeserialize(IOEnv.LOADTRACE)
VARIABLE l

LoadOf(case) == LET I == { i \in DOMAIN LoadRec : LoadRec[i].ev \in {"Load", "Crash"} /\ LoadRec[i].case = case } IN
                LoadRec[CHOOSE i \in I : TRUE]

\* the table of unit <<locale, ns>> according to the parser
TableOf(ld, loc, ns) ==
    LET u == CHOOSE i \in DOMAIN ld.load.units : ld.load.units[i].ns = ns
        t == CHOOSE j \in DOMAIN ld.load.units[u].tables : ld.load.units[u].tables[j].locale = loc IN
    ld.load.units[u].tables[t].strings

Tags(ev) ==
    IF ev.ev # "Script" THEN {}
    ELSE IF ev.outcome # "Ok" THEN {"render-outcome:" \o ev.outcome}
    ELSE (IF ev.hasCloseTag THEN {"script-closed-early"} ELSE {})
         \cup (IF ev.hasComment THEN {"script-contains-comment-open"} ELSE {})
         \cup (IF ~ev.isJson THEN {"script-not-decodable"}
               ELSE LET ld == LoadOf(ev.case)
                        want == { [locale |-> t[1], id |-> t[2], values |-> TableOf(ld, t[1], t[2])] : t \in Range(ev.touched) }
                        got == Range(ev.decoded) IN
                    (IF got = want THEN {}
                     ELSE (IF { [locale |-> g.locale, id |-> g.id] : g \in got } # { [locale |-> w.locale, id |-> w.id] : w \in want }
                           THEN {"units-listed"} ELSE {"unit-strings"}))
                    \cup (IF Len(ev.decoded) = Cardinality(got) THEN {} ELSE {"unit-listed-twice"}))

TraceInit == l = 1
TraceNext ==
    /\ l <= Len(Rec)
    /\ l' = l + 1
    /\ LET tags == Tags(Rec[l]) IN
         tags = {} \/ PrintT(<<"REJECT", ToJson([l |-> l, case |-> Rec[l].case, tags |-> tags])>>)
TraceSpec == TraceInit /\ [][TraceNext]_l
Post == PrintT(<<"SUMMARY", ToJson([events |-> Len(Rec), consumed |-> TLCGet("stats").diameter - 1])>>)
=============================================================================
