--------------------------------- MODULE Sig ---------------------------------
(* C08  A key's required arguments are the union over all locales.            *)
(* The implementation builds the signature incrementally: the default locale  *)
(* first, then every other locale merged into it (any order here), a count    *)
(* variable keeps one kind (range type or plural) and a second, different     *)
(* kind for the same name is an error.                                        *)
EXTENDS Subst

VARIABLES contrib, todo, sig, err
vars == <<contrib, todo, sig, err>>

EmptySig == [vars |-> {}, comps |-> {}, counts |-> {}]
\* contrib: function locale -> per-locale contribution [vars, comps, counts]
InitWith(c) == contrib = c /\ todo = DOMAIN c /\ sig = EmptySig /\ err = FALSE

Conflicts(a, b) == \E x \in a, y \in b : x[1] = y[1] /\ x[2] # y[2]

MergeLocale(x) ==
    /\ x \in todo /\ ~err
    /\ ("en" \in todo => x = "en")                       \* the default locale always goes first
    /\ todo' = todo \ {x}
    /\ IF Conflicts(sig.counts, contrib[x].counts) \/ Conflicts(contrib[x].counts, contrib[x].counts)
       THEN err' = TRUE /\ UNCHANGED sig
       ELSE /\ sig' = [vars |-> sig.vars \cup contrib[x].vars, comps |-> sig.comps \cup contrib[x].comps,
                       counts |-> sig.counts \cup contrib[x].counts]
            /\ UNCHANGED err
    /\ UNCHANGED contrib

Next == \E x \in todo : MergeLocale(x)
Done == todo = {} \/ err

\* declarative
Union(c) == [vars |-> UNION { c[x].vars : x \in DOMAIN c }, comps |-> UNION { c[x].comps : x \in DOMAIN c },
             counts |-> UNION { c[x].counts : x \in DOMAIN c }]
MustFail(c) == LET u == Union(c).counts IN Conflicts(u, u)

SigIsUnion == (todo = {} /\ ~err) => sig = Union(contrib)
ErrIffConflict == Done => (err <=> MustFail(contrib))
Termination == <>Done
=============================================================================
