"""C20  The build helper requests exactly the ICU data the translations use."""
import json

import vp
from checks import loadfam


def _key(c, r):
    p = c["abs"]
    uses = sorted("%s/%s/%s/%s" % (u["unit"], u["where"], u["loc"], u["feat"]) for u in p["uses"])
    return "units=%s;uses=%s;%s" % (p["units"], ",".join(uses), sorted(r["tags"])[0])


def check(run):
    cases, res = loadfam.gen_cases(run, "IcuCases", "MC_Icu_%s.cfg" % run.tier, timeout=3600, workers=1)
    if len(cases) < 50:
        raise vp.ToolError("IcuCases produced too few cases")
    run.samples = [cases[3]["abs"], cases[-1]["abs"]]
    loadfam.replay_load(run, cases, "Trace_Icu", "Trace_Icu.cfg", key_of=_key, package="drv_build", per_case_timeout=60)
    # the same directory loaded again after its content changed, in the same process: the options are those of the new content
    loadfam.replay_reload(run, cases[::(5 if run.tier == "quick" else 1)], "Trace_Icu", "Trace_Icu.cfg", _key, package="drv_build", per_case_timeout=60)
    run.exhaustive = True
    run.assumptions = ["a use = (namespace, key position at depth 0/1/2, locale, feature); all single uses and pairs of uses (bounded per tier), with and without namespaces",
                       "the family -> DataKey table is taken from the public Options::into_data_keys, so the check is about which families are requested",
                       "the second sentence of the property (a generated data provider never lacks data) needs icu_datagen to download CLDR data and cannot be decided offline"]
    return run.finish("every project of the bounded use universe; non-trivial: projects with at least one use outside the default locale's top level",
                      {"distinct_nontrivial": sum(1 for c in cases if any(u["loc"] != "en" or u["where"] != "t" for u in c["abs"]["uses"]))})


def replay(run, path):
    rp = json.load(open(path))["replay"]
    loadfam.replay_load(run, [rp["case"]], "Trace_Icu", "Trace_Icu.cfg", keep_dirs=True, package="drv_build")
    return run.finish("replay of one recorded case")
