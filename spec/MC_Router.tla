------------------------------- MODULE MC_Router -------------------------------
EXTENDS Router, Json

CONSTANT Words
R1 == [names |-> [en |-> "en", fr |-> "fr"], default |-> "en", set |-> "R1"]
R2 == [names |-> [en |-> "en", enUS |-> "en-US", fr |-> "fr"], default |-> "en", set |-> "R2"]
R3 == [names |-> [fr |-> "fr", fra |-> "fra", en |-> "en"], default |-> "fr", set |-> "R3"]
MCLocaleSets == {R1, R2, R3}
MCBases == { <<>>, <<"app">> }
T1 == << <<Loc("about")>>, <<Loc("users"), Param>>, <<St("docs"), Splat>> >>
T2 == << <<Opt, Loc("about")>>, <<St("x"), Loc("users"), Opt>> >>
T3 == << >>
MCTables == {T1, T2, T3}
Segs(x) == { LocName[k][x] : k \in DOMAIN LocName }
\* paths below the prefix: up to 2 words, plus spellings of the localized segments in each locale
MCRests == { <<>> } \cup { <<a>> : a \in Words } \cup { <<a, b>> : a \in Words, b \in Words }

\* spelling of base paths given to the real code
BaseText(b) == IF b = <<>> THEN {"", "/"} ELSE {"app", "/app", "app/", "/app/"}

EmitCases == (n = 0) =>
    PrintT(<<"CASE", ToJson([family |-> "router",
                             abs |-> [set |-> ls.set, names |-> ls.names, default |-> ls.default, base |-> base, table |-> table,
                                      rest |-> rest0, cur |-> cur0]])>>)
MCSpec == Init /\ [][Next]_vars
NoTrail == <<ls, base, table, rest0, cur0, cur, rest, n>>
=============================================================================
