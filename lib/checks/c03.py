"""C03  Missing keys fall back along the inheritance chain, then to default."""
import vp
from checks import loadfam


def check(run):
    cfg = "MC_Fallback_quick.cfg" if run.tier == "quick" else "MC_Fallback_thorough.cfg"
    cases, res = loadfam.gen_cases(run, "MC_Fallback", cfg)
    if not cases:
        raise vp.ToolError("MC_Fallback produced no cases")
    run.samples = [{"inherits": c["abs"]["inh"], "keys": len(c["abs"]["keys"]),
                    "first_key": c["abs"]["keys"][0]} for c in cases[:3]]
    loadfam.replay_load(run, cases, "Trace_Fallback", "Trace_Fallback.cfg",
                        key_of=lambda c, r: "inh=%s;%s" % (sorted(c["abs"]["inh"].items()), sorted(r["tags"])[0]))
    run.exhaustive = True
    run.assumptions = ["TLC explores every inherits map over the locale set and every presence pattern of one key;"
                       " the projects replayed carry every pattern as a distinct key",
                       "observation at the parser level (DefaultedLocales, per-locale trees); generated code is observed by the L2 checks"]
    return run.finish("one project per inherits map (all maps over the locale set incl. self reference and cycles); "
                      "every presence pattern {defined,null,absent} per locale for value keys and for two-leaf groups; "
                      "a case is non-trivial when at least one locale does not define the key",
                      {"distinct_nontrivial": len(cases)})


def replay(run, path):
    import json
    rp = json.load(open(path))["replay"]
    loadfam.replay_load(run, [rp["case"]], "Trace_Fallback", "Trace_Fallback.cfg", keep_dirs=True)
    return run.finish("replay of one recorded case")
