------------------------------- MODULE Strings -------------------------------
(* C11 (and the escaping half of C17).                                        *)
(*  - the string indexer: literals are pushed one by one, equal texts share   *)
(*    an index, every literal remembers the index it was given;               *)
(*  - JSON string escaping as a character transducer and its decoder: the     *)
(*    exported file must decode to the same strings for any text.             *)
EXTENDS Chars

\* ---- JSON escaping over symbols ---------------------------------------------------------------
\* what a JSON writer must emit for one character
Hex4 == [CTRL1 |-> <<"0","0","0","1">>, DEL |-> <<"0","0","7","f">>]
EscChar(c) ==
    CASE c = "QUOT" -> <<"BSL", "QUOT">>
      [] c = "BSL"  -> <<"BSL", "BSL">>
      [] c = "NL"   -> <<"BSL", "n">>
      [] c = "TAB"  -> <<"BSL", "t">>
      [] c = "CR"   -> <<"BSL", "r">>
      [] c = "CTRL1" -> <<"BSL", "u">> \o Hex4["CTRL1"]
      [] OTHER -> <<c>>          \* everything else, incl. NBSP, ZW, LS, astral characters, is written as is

RECURSIVE JsonEsc(_)
JsonEsc(s) == IF s = <<>> THEN <<>> ELSE EscChar(Head(s)) \o JsonEsc(Tail(s))

\* a JSON reader on the escaped form; "ERR" when the text is not a valid JSON string body
RECURSIVE JsonDec(_)
JsonDec(e) ==
    IF e = <<>> THEN <<>>
    ELSE IF Head(e) = "QUOT" \/ Head(e) \in {"NL", "TAB", "CR", "CTRL1"} THEN <<"ERR">>     \* raw quote / control character
    ELSE IF Head(e) # "BSL" THEN <<Head(e)>> \o JsonDec(Tail(e))
    ELSE IF Len(e) < 2 THEN <<"ERR">>
    ELSE LET x == e[2] IN
         IF x = "QUOT" THEN <<"QUOT">> \o JsonDec(SubSeq(e, 3, Len(e)))
         ELSE IF x = "BSL" THEN <<"BSL">> \o JsonDec(SubSeq(e, 3, Len(e)))
         ELSE IF x = "n" THEN <<"NL">> \o JsonDec(SubSeq(e, 3, Len(e)))
         ELSE IF x = "t" THEN <<"TAB">> \o JsonDec(SubSeq(e, 3, Len(e)))
         ELSE IF x = "r" THEN <<"CR">> \o JsonDec(SubSeq(e, 3, Len(e)))
         ELSE IF x = "u" /\ Len(e) >= 6 /\ SubSeq(e, 3, 6) = Hex4["CTRL1"] THEN <<"CTRL1">> \o JsonDec(SubSeq(e, 7, Len(e)))
         ELSE <<"ERR">>                                  \* e.g. Rust's \u{a0} is not JSON

\* ---- the two machines --------------------------------------------------------------------------
CONSTANTS Alphabet, MaxLen,       \* strings explored by the escaping machine
          Literals                \* sequences of texts pushed into the indexer

VARIABLES s, phase,               \* escaping machine: the string, "build" | "escaped" | "decoded"
          esc, dec,
          todo, table, given      \* indexer: texts still to push, table, index given to each pushed text (in order)
vars == <<s, phase, esc, dec, todo, table, given>>

Init == /\ s = <<>> /\ phase = "build" /\ esc = <<>> /\ dec = <<>>
        /\ todo \in Literals /\ table = <<>> /\ given = <<>>

Grow(c)  == phase = "build" /\ Len(s) < MaxLen /\ s' = Append(s, c) /\ UNCHANGED <<phase, esc, dec, todo, table, given>>
Escape   == phase = "build" /\ phase' = "escaped" /\ esc' = JsonEsc(s) /\ UNCHANGED <<s, dec, todo, table, given>>
Decode   == phase = "escaped" /\ phase' = "decoded" /\ dec' = JsonDec(esc) /\ UNCHANGED <<s, esc, todo, table, given>>

\* StringIndexer::push_str
Push ==
    /\ todo # <<>>
    /\ LET t == Head(todo)
           hit == { i \in DOMAIN table : table[i] = t } IN
       IF hit # {} THEN /\ given' = Append(given, <<t, (CHOOSE i \in hit : TRUE) - 1>>) /\ UNCHANGED table
       ELSE /\ table' = Append(table, t) /\ given' = Append(given, <<t, Len(table)>>)
    /\ todo' = Tail(todo) /\ UNCHANGED <<s, phase, esc, dec>>

Next == (\E c \in Alphabet : Grow(c)) \/ Escape \/ Decode \/ Push

RoundTrip == phase = "decoded" => dec = s
EscapedIsOneLine == phase # "build" => \A i \in DOMAIN esc : esc[i] \notin {"NL", "CR", "CTRL1"}
\* every literal reads back its own text at the index it was given (0-based), and the table has no duplicates
IndexOK == /\ \A i \in DOMAIN given : given[i][2] + 1 \in DOMAIN table /\ table[given[i][2] + 1] = given[i][1]
           /\ Len(table) = Cardinality(Range(table))
=============================================================================
