SPECIFICATION Spec
INVARIANT Distinct
CHECK_DEADLOCK FALSE
