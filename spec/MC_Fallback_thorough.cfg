CONSTANTS
  Def = "en"
  NonDef = {"fr", "de", "es", "it"}
SPECIFICATION MCSpec
INVARIANTS FallbackOK ResolvedIsDefining EmitCases
PROPERTY Termination
CHECK_DEADLOCK FALSE
