----------------------------- MODULE Trace_Keys -----------------------------
(* Validates diagnostics, accessible key set and per-locale values reported *)
(* by the real parser for the C07 projects.                                  *)
EXTENDS KeysCases, Json, IOUtils

Rec   == ndJsonDeserialize(IOEnv.TRACE)
Cases == ndJsonDeserialize(IOEnv.CASES)
Suppress == IOEnv.SUPPRESS = "1"    \* the driver was built with suppress_key_warnings

VARIABLE l

Locs == <<"en", "fr", "de">>

\* t, t2: the trees of fr and de (equal except in the cross family)
LeafTags(keys, t, t2, p) ==
    LET e == LevelAt(keys, p) IN
    UNION { LET x == Locs[i]
                defd == x = "en" \/ NodeAt(IF x = "de" THEN t2 ELSE t, p).t = "val" IN
              (IF e.vals[x] # (IF defd THEN TextTree(TextOf(x, p)) ELSE DefaultTree)
                 THEN {"val:" \o Str(PathSyms(p)) \o ":" \o x} ELSE {})
              \cup (IF e.src[x] # (IF defd THEN x ELSE "en")
                 THEN {"src:" \o Str(PathSyms(p)) \o ":" \o x} ELSE {})
            : i \in DOMAIN Locs }

CaseTags(ev) ==
    LET c == Cases[ev.case]
        d == c.abs.def
        t == c.abs.loc
        t2 == IF "loc2" \in DOMAIN c.abs THEN c.abs.loc2 ELSE t IN
    IF LoadFails(d, <<t, t2>>)
    THEN IF ev.load.outcome = "Err" THEN {} ELSE {"expected-error-got:" \o ev.load.outcome}
    ELSE IF ev.load.outcome # "Ok" THEN {"outcome:" \o ev.load.outcome}
    ELSE LET keys == ev.load.units[1].keys
             exp  == ExpectedWarns(d, t, "fr", Suppress, Suppress) \cup ExpectedWarns(d, t2, "de", TRUE, Suppress)
             got  == ev.load.warns IN
         (IF Range(got) # exp THEN {"warnings-set"} ELSE {})
         \cup (IF Len(got) # Cardinality(Range(got)) THEN {"warnings-duplicated"} ELSE {})
         \cup (IF ~ShapeOK(keys, d) THEN {"keyset"}
               ELSE UNION { LeafTags(keys, t, t2, p) : p \in LeafPaths(d, <<>>) })

\* L2: is a key path reachable from generated code?  exactly the leaf paths of the default tree are (for every locale)
CompileTags(ev) ==
    LET c == Cases[ev.case]
        reachable == ev.path \in LeafPaths(c.abs.def, <<>>) IN
    IF reachable /\ ev.got # "ok" THEN {"default-key-not-accessible"}
    ELSE IF ~reachable /\ ev.got # "fail" THEN {"key-outside-default-locale-is-reachable"}
    ELSE {}

\* the code generator (real load_locales run in-process): the `note`s of the `#[deprecated]` items it emits are the texts of the
\* warnings the parser returned for the same project (LOADTRACE: the parser's trace of the same cases), each exactly once
LoadRec == ndJsonDeserialize(IOEnv.LOADTRACE)
LoadOf(case) == LET I == { i \in DOMAIN LoadRec : LoadRec[i].ev \in {"Load", "Crash"} /\ LoadRec[i].case = case } IN LoadRec[CHOOSE i \in I : TRUE]
SameBag(a, b) == Len(a) = Len(b) /\ \A t \in Range(a) \cup Range(b) :
                     Cardinality({ i \in DOMAIN a : a[i] = t }) = Cardinality({ j \in DOMAIN b : b[j] = t })
CodegenTags(ev) ==
    LET ld == LoadOf(ev.case) IN
    IF ev.outcome \notin {"Ok", "Err"} THEN {"codegen-outcome:" \o ev.outcome}
    ELSE IF ld.ev # "Load" \/ ld.load.outcome # "Ok" THEN (IF ev.outcome = "Err" THEN {} ELSE {"generator-accepts-what-the-parser-rejects"})
    ELSE IF ev.outcome # "Ok" THEN {"generator-rejects-what-the-parser-accepts"}
    ELSE IF SameBag(ev.notes, ld.load.warnTexts) THEN {} ELSE {"emitted-warnings-differ"}

Tags(ev) == IF ev.ev = "Load" THEN CaseTags(ev)
            ELSE IF ev.ev = "Codegen" THEN CodegenTags(ev)
            ELSE IF ev.ev = "Compile" THEN CompileTags(ev)
            ELSE IF ev.ev = "Crash" THEN {"crash:" \o ev.outcome}
            ELSE {}

TraceInit == l = 1
TraceNext ==
    /\ l <= Len(Rec)
    /\ l' = l + 1
    /\ LET tags == Tags(Rec[l]) IN
         tags = {} \/ PrintT(<<"REJECT", ToJson([l |-> l, case |-> Rec[l].case, tags |-> tags])>>)
TraceSpec == TraceInit /\ [][TraceNext]_l

Post == PrintT(<<"SUMMARY", ToJson([events |-> Len(Rec), consumed |-> TLCGet("stats").diameter - 1])>>)
=============================================================================
