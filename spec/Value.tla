------------------------------- MODULE Value -------------------------------
(* The value grammar of translation strings (C01):                           *)
(*   piece ::= text | {{ ws name ws }} | <ws name ws> value </ws name ws>    *)
(* AST: a value is a sequence of pieces                                      *)
(*   [k |-> "text", s |-> symbols]                                           *)
(*   [k |-> "var",  n |-> name symbols]                                      *)
(*   [k |-> "comp", n |-> name symbols, c |-> value]                         *)
(* Unparse writes a value down with a choice of optional whitespace, Parse   *)
(* is the splitting algorithm (first closable tag, then first {{ }}, applied *)
(* recursively to before / inside / after), Denote is what rendering means.  *)
EXTENDS Chars

Text(s)    == [k |-> "text", s |-> s]
Var(n)     == [k |-> "var", n |-> n]
Comp(n, c) == [k |-> "comp", n |-> n, c |-> c]

\* ---- canonical form: adjacent texts merged, empty texts dropped -----------------
RECURSIVE Canon(_)
Canon(v) ==
    IF v = <<>> THEN <<>>
    ELSE LET h == Head(v)  r == Canon(Tail(v)) IN
         IF h.k = "text"
         THEN IF h.s = <<>> THEN r
              ELSE IF r # <<>> /\ r[1].k = "text" THEN <<Text(h.s \o r[1].s)>> \o Tail(r)
              ELSE <<h>> \o r
         ELSE IF h.k = "comp" THEN <<Comp(h.n, Canon(h.c))>> \o r
         ELSE <<h>> \o r

\* ---- writing a value down ---------------------------------------------------------
\* ws: [vl, vr, ol, orr, c1, c2, cr] optional whitespace (symbol sequences) at the 7 positions
\*   {{vl name vr}}   <ol name orr>   <c1/c2 name cr>
NoWs == [vl |-> <<>>, vr |-> <<>>, ol |-> <<>>, orr |-> <<>>, c1 |-> <<>>, c2 |-> <<>>, cr |-> <<>>]

RECURSIVE Unparse(_, _)
Unparse(v, ws) ==
    IF v = <<>> THEN <<>>
    ELSE LET h == Head(v) IN
         (IF h.k = "text" THEN h.s
          ELSE IF h.k = "var" THEN <<"LB", "LB">> \o ws.vl \o h.n \o ws.vr \o <<"RB", "RB">>
          ELSE <<"LT">> \o ws.ol \o h.n \o ws.orr \o <<"GT">> \o Unparse(h.c, ws)
               \o <<"LT">> \o ws.c1 \o <<"SL">> \o ws.c2 \o h.n \o ws.cr \o <<"GT">>)
         \o Unparse(Tail(v), ws)

\* ---- the splitting algorithm ------------------------------------------------------
NotFound == [found |-> FALSE]

\* the tag starting at position i of s (s[i] = "<"): [ok, ident (trimmed), gt (position of ">")]
TagAt(s, i) ==
    LET g == FindFrom(s, <<"GT">>, i + 1) IN
    IF g = 0 THEN [ok |-> FALSE] ELSE [ok |-> TRUE, ident |-> Trim(SubSeq(s, i + 1, g - 1)), gt |-> g]

\* scan for the closing tag of `key` from position i with nesting depth d: every "<" that is
\* followed by a ">" is looked at; "</key>" closes (at depth 0) or decrements, "<key>" increments
RECURSIVE FindClose(_, _, _, _)
FindClose(s, key, i, d) ==
    LET p == FindFrom(s, <<"LT">>, i) IN
    IF p = 0 THEN NotFound
    ELSE LET t == TagAt(s, p) IN
         IF ~t.ok THEN NotFound
         ELSE IF t.ident # <<>> /\ Head(t.ident) = "SL"
              THEN IF TrimStart(Tail(t.ident)) = key
                   THEN IF d = 0 THEN [found |-> TRUE, lt |-> p, gt |-> t.gt]
                        ELSE FindClose(s, key, p + 1, d - 1)
                   ELSE FindClose(s, key, p + 1, d)
              ELSE IF t.ident = key THEN FindClose(s, key, p + 1, d + 1)
              ELSE FindClose(s, key, p + 1, d)

\* first opening tag (from position i) that has a name usable as an identifier and a closing tag
RECURSIVE FindComp(_, _)
FindComp(s, i) ==
    LET p == FindFrom(s, <<"LT">>, i) IN
    IF p = 0 THEN NotFound
    ELSE LET t == TagAt(s, p) IN
         IF ~t.ok THEN NotFound
         ELSE LET c == IF IsNameAfterPrefix(t.ident) THEN FindClose(s, t.ident, t.gt + 1, 0) ELSE NotFound IN
              IF c.found
              THEN [found |-> TRUE, name |-> t.ident, before |-> Before(s, p),
                    inner |-> SubSeq(s, t.gt + 1, c.lt - 1), after |-> From(s, c.gt + 1)]
              ELSE FindComp(s, t.gt + 1)

FindVar(s) ==
    LET p == FindFrom(s, <<"LB", "LB">>, 1) IN
    IF p = 0 THEN NotFound
    ELSE LET q == FindFrom(s, <<"RB", "RB">>, p + 2) IN
         IF q = 0 THEN NotFound
         ELSE LET ident == Trim(SubSeq(s, p + 2, q - 1)) IN
              IF ~IsNameAfterPrefix(ident) \/ "COMMA" \in Range(ident) THEN NotFound
              ELSE [found |-> TRUE, name |-> ident, before |-> Before(s, p), after |-> From(s, q + 2)]

RECURSIVE Parse(_)
Parse(s) ==
    LET c == FindComp(s, 1) IN
    IF c.found THEN Parse(c.before) \o <<Comp(c.name, Canon(Parse(c.inner)))>> \o Parse(c.after)
    ELSE LET v == FindVar(s) IN
         IF v.found THEN Parse(v.before) \o <<Var(v.name)>> \o Parse(v.after)
         ELSE IF s = <<>> THEN <<>> ELSE <<Text(s)>>

ParseCanon(s) == Canon(Parse(s))

\* ---- what rendering means -------------------------------------------------------------
\* env.vars : name string -> symbols;  a component named n renders as  <n>children</n>
RECURSIVE Denote(_, _)
Denote(v, env) ==
    IF v = <<>> THEN <<>>
    ELSE LET h == Head(v) IN
         (IF h.k = "text" THEN h.s
          ELSE IF h.k = "var" THEN env[Str(h.n)]
          ELSE <<"LT">> \o h.n \o <<"GT">> \o Denote(h.c, env) \o <<"LT", "SL">> \o h.n \o <<"GT">>)
         \o Denote(Tail(v), env)

RECURSIVE VarsOf(_), CompsOf(_)
VarsOf(v)  == UNION { IF v[i].k = "var" THEN {Str(v[i].n)} ELSE IF v[i].k = "comp" THEN VarsOf(v[i].c) ELSE {} : i \in DOMAIN v }
CompsOf(v) == UNION { IF v[i].k = "comp" THEN {Str(v[i].n)} \cup CompsOf(v[i].c) ELSE {} : i \in DOMAIN v }

\* ---- expected projection of a parsed value (vocabulary of drv_common::tree) -------------
NoFormatter == [name |-> "none", args |-> <<>>]
RECURSIVE Pieces(_)
Pieces(v) ==
    [i \in DOMAIN v |->
        IF v[i].k = "text" THEN [k |-> "text", s |-> v[i].s, tab |-> v[i].s]
        ELSE IF v[i].k = "var" THEN [k |-> "var", n |-> Str(v[i].n), f |-> NoFormatter]
        ELSE [k |-> "comp", n |-> Str(v[i].n), c |-> Pieces(v[i].c)]]

TreeOf(v) == LET c == Canon(v) IN
             [lit |-> IF c = <<>> \/ (Len(c) = 1 /\ c[1].k = "text") THEN "String" ELSE "none", c |-> Pieces(c)]
=============================================================================
