CONSTANTS
  Units <- MCUnits
  Alphabet <- MCAlphabet
  MaxLen = 0
SPECIFICATION MCSpec
INVARIANTS ExactlyTouched
CONSTRAINT UnitsOnly
CHECK_DEADLOCK FALSE
