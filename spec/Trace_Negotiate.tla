---------------------------- MODULE Trace_Negotiate ----------------------------
(* Validates Locale::find_locale / find_matchs of the real crate on every       *)
(* (supported set, request list) against the property Honours.                  *)
EXTENDS NegotiateOps, Json, IOUtils

Rec   == ndJsonDeserialize(IOEnv.TRACE)
Cases == ndJsonDeserialize(IOEnv.CASES)
VARIABLE l

NameOf(tag) == IF \E n \in DOMAIN Tag : Tag[n] = tag THEN CHOOSE n \in DOMAIN Tag : Tag[n] = tag ELSE "bad"

Tags(ev) ==
    IF ev.ev = "Crash" THEN {"crash:" \o ev.outcome}
    ELSE IF ev.ev # "Negotiate" THEN {}
    ELSE LET a == Cases[ev.case].abs
             avail == Range(a.avail)
             req == [j \in DOMAIN ev.req |-> NameOf(ev.req[j])] IN
         \* "find_locale (entries as split from a header)": the same list with a space in front of every entry but the first,
         \* as the entries of `Accept-Language: a, b, c` arrive; it means the same request
         IF ev.api \in {"find_locale", "find_locale (entries as split from a header)"}
         THEN IF ev.chosen = "PANIC" THEN {"panic"}
              ELSE IF Honours(req, avail, a.default, NameOf(ev.chosen)) THEN {} ELSE {"preference-not-honoured"}
         ELSE IF ev.matches = <<"PANIC">> THEN {"panic"}
              ELSE LET ms == [j \in DOMAIN ev.matches |-> NameOf(ev.matches[j])]
                       want == { x \in avail : Valid(req[1]) /\ Covers(x, req[1]) } IN
                   (IF Range(ms) = want /\ Len(ms) = Cardinality(want) THEN {} ELSE {"matches-set"})
                   \cup (IF ms # <<>> /\ (\E x \in want : Exact(x, req[1])) /\ ~Exact(ms[1], req[1]) THEN {"exact-not-first"} ELSE {})

TraceInit == l = 1
TraceNext ==
    /\ l <= Len(Rec)
    /\ l' = l + 1
    /\ LET tags == Tags(Rec[l]) IN
         tags = {} \/ PrintT(<<"REJECT", ToJson([l |-> l, case |-> Rec[l].case, tags |-> tags,
                                                  req |-> IF "req" \in DOMAIN Rec[l] THEN Rec[l].req ELSE <<>>])>>)
TraceSpec == TraceInit /\ [][TraceNext]_l
Post == PrintT(<<"SUMMARY", ToJson([events |-> Len(Rec), consumed |-> TLCGet("stats").diameter - 1])>>)
=============================================================================
