------------------------------ MODULE Fallback ------------------------------
(* C03  Missing keys fall back along the inheritance chain, then to default. *)
(*                                                                           *)
(* Two descriptions of the same thing:                                       *)
(*   - Source(l, pres) : the declarative rule of the property;               *)
(*   - the algorithm the implementation runs: while merging a locale into    *)
(*     the default key set every key the locale does not define records      *)
(*     "falls back to <inherits target or default>" (action Merge), and the  *)
(*     code generators later follow that mapping with a visited set until a  *)
(*     locale without an entry is reached (actions StartResolve / Step).     *)
(* MC_Fallback lets TLC show that they agree for every inherits map and      *)
(* every presence pattern; Trace_Fallback checks what the real pipeline      *)
(* computed against Source.                                                  *)
EXTENDS FallbackOps

CONSTANTS Def,        \* symbol sequence naming the default locale, e.g. <<"e","n">>
          NonDef      \* set of symbol sequences naming the other locales

Locales == {Def} \cup NonDef
InhMaps == [NonDef -> Locales \cup {None}]   \* None: no `inherits` entry

\* ---- the implemented algorithm -------------------------------------------
VARIABLES inh, pres,       \* the input: inherits map, presence of one key per locale
          todo,            \* locales not merged yet
          mapping,         \* NonDef -> Locales \cup {None}: "l falls back to ..."
          resolving, cur, visited,  \* one default_of() walk in progress
          res              \* NonDef -> Locales \cup {None}: finished walks

vars == <<inh, pres, todo, mapping, resolving, cur, visited, res>>

Init(I, P) ==
    /\ inh \in I /\ pres \in P
    /\ todo = NonDef
    /\ mapping = [l \in NonDef |-> None]
    /\ resolving = None /\ cur = None /\ visited = {}
    /\ res = [l \in NonDef |-> None]

\* merging locale l: a key it does not define (absent or null) defaults to the
\* inherits target, or to the default locale
Merge(l) ==
    /\ l \in todo
    /\ todo' = todo \ {l}
    /\ mapping' = IF pres[l] = "def" THEN mapping
                  ELSE [mapping EXCEPT ![l] = IF inh[l] = None THEN Def ELSE inh[l]]
    /\ UNCHANGED <<inh, pres, resolving, cur, visited, res>>

StartResolve(l) ==
    /\ todo = {} /\ resolving = None /\ res[l] = None
    /\ resolving' = l /\ cur' = l /\ visited' = {}
    /\ UNCHANGED <<inh, pres, todo, mapping, res>>

HasEntry(x) == x \in NonDef /\ mapping[x] # None

Step ==
    /\ resolving # None
    /\ IF HasEntry(cur)
       THEN IF mapping[cur] \in visited \cup {cur}
            THEN /\ res' = [res EXCEPT ![resolving] = Def]
                 /\ resolving' = None /\ cur' = None /\ visited' = {}
            ELSE /\ visited' = visited \cup {cur}
                 /\ cur' = mapping[cur]
                 /\ UNCHANGED <<res, resolving>>
       ELSE /\ res' = [res EXCEPT ![resolving] = cur]
            /\ resolving' = None /\ cur' = None /\ visited' = {}
    /\ UNCHANGED <<inh, pres, todo, mapping>>

Next == (\E l \in NonDef : Merge(l) \/ StartResolve(l)) \/ Step

Done == todo = {} /\ resolving = None /\ \A l \in NonDef : res[l] # None

\* ---- properties -----------------------------------------------------------
FallbackOK == Done => \A l \in NonDef : res[l] = Source(l, inh, pres, Def)
DefaultNeverBorrows == \A P \in [NonDef -> P3], I \in InhMaps : Source(Def, I, P, Def) = Def
ResolvedIsDefining == \A l \in NonDef : res[l] # None => Defined(res[l], pres, Def)
Termination == <>Done
=============================================================================
