------------------------------- MODULE Ranges -------------------------------
(* The matcher walk of the implementation (try each branch in declaration    *)
(* order, first hit wins) against the declarative Select, and the rewrite of *)
(* an exclusive integer end into an inclusive one.                            *)
EXTENDS RangesOps

CONSTANTS Decls      \* set of branch sequences

VARIABLES branches, n, i, result
vars == <<branches, n, i, result>>

Init == branches \in Decls /\ n \in Dom /\ i = 1 /\ result = -1     \* -1: walking, 0: no branch, k: branch k

TryBranch ==
    /\ result = -1 /\ i <= Len(branches)
    /\ IF BranchContains(branches[i], n) THEN result' = i /\ UNCHANGED i
       ELSE i' = i + 1 /\ UNCHANGED result
    /\ UNCHANGED <<branches, n>>
NoBranch == result = -1 /\ i > Len(branches) /\ result' = 0 /\ UNCHANGED <<branches, n, i>>
Next == TryBranch \/ NoBranch

SelectAgrees == result # -1 => result = Select(branches, n)
\* with a well-placed fallback some branch always matches
FallbackTotal == (result # -1 /\ FallbackIdx(branches) # {}) => result # 0
\* the integer rewrite  lo..hi  ==>  lo..=(hi-1)  preserves membership (numbers taken literally here)
NormalisePreserves ==
    \A lo \in 0..7, hi \in 1..7, c \in 0..7 :
        ((lo <= c) /\ (c < hi)) <=> ((lo <= c) /\ (c <= hi - 1))
Termination == <>(result # -1)
=============================================================================
