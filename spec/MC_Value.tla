------------------------------ MODULE MC_Value ------------------------------
EXTENDS ValueGen, Json

MCTexts == { <<"a">>, <<"SP", "E1", "SP">> }
MCVars  == { <<"x">>, <<"y">> }
MCComps == { <<"b">>, <<"i", "E1">> }     \* (a component whose name is not ASCII: byte length and character count differ)

WsAtoms == { <<>>, <<"SP">>, <<"SP", "SP">>, <<"NBSP">>, <<"TAB">> }
Positions == {"vl", "vr", "ol", "orr", "c1", "c2", "cr"}
\* one position at a time set to each kind of whitespace, plus the same whitespace everywhere
OneAt(p, w) == [q \in Positions |-> IF q = p THEN w ELSE <<>>]
Everywhere(w) == [q \in Positions |-> w]
WsSingles == { OneAt(p, w) : p \in Positions, w \in WsAtoms }
WsAll     == { Everywhere(w) : w \in WsAtoms }
MCWs      == WsSingles \cup WsAll

RoundTripMC == RoundTrip(MCWs)

\* one CASE per generated value: the AST and its spelling under every whitespace choice
EmitCases == done => PrintT(<<"CASE", ToJson([family |-> "value", abs |-> [ast |-> Value],
                                 spellings |-> SortedSeq({ Unparse(Value, ws) : ws \in MCWs })])>>)

\* scale families: values with many pieces (the view back-end regroups more than 26 pieces into nested tuples), as a
\* top-level value and as the children of one component; texts are numbered so that a dropped or moved piece shows
Alt(n) == [i \in 1..n |-> IF i % 2 = 1 THEN Text(<<"s">> \o NatSyms(i) \o <<"SP">>) ELSE Var(IF i % 4 = 0 THEN <<"y">> ELSE <<"x">>)]
ScaleSizes == {25, 26, 27, 28, 29, 51, 52, 53, 55, 56, 79, 100, 131}
ScaleValues == { Alt(n) : n \in ScaleSizes } \cup { <<Text(<<"a">>), Comp(<<"b">>, Alt(n)), Text(<<"z">>)>> : n \in {26, 27, 53} }
EmitScale == (ntok = 0 /\ ~done) => \A v \in ScaleValues :
                 PrintT(<<"CASE", ToJson([family |-> "value", scale |-> TRUE, abs |-> [ast |-> v], spellings |-> <<Unparse(v, NoWs)>>])>>)
ScaleRoundTrip == \A v \in ScaleValues : ParseCanon(Unparse(v, NoWs)) = v

MCSpec == Init /\ [][Next]_vars /\ WF_vars(Next)
=============================================================================
