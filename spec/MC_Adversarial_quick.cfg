CONSTANTS
  Lexemes <- MCLexemes
  MaxLex = 4
SPECIFICATION MCSpec
INVARIANTS ParseTotal PlainIsLiteral EmitCases
CHECK_DEADLOCK FALSE
