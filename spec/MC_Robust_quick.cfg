CONSTANTS Depths <- DepthsQuick
SPECIFICATION Spec
CHECK_DEADLOCK FALSE
