SPECIFICATION Spec
INVARIANT Covered
CHECK_DEADLOCK FALSE
