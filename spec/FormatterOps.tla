----------------------------- MODULE FormatterOps -----------------------------
(* C18  Formatters apply the declared options.  The declarative part: what a   *)
(* formatter text `name(arg: value; ...)` means.                               *)
(* A formatter is [name, args] with args the option values in a fixed order    *)
(* (the vocabulary of the drivers' projection):                                *)
(*   number   <<grouping_strategy>>         date  <<date_length>>               *)
(*   time     <<time_length>>               datetime <<date_length, time_length>>*)
(*   list     <<list_type, list_style>>     currency <<width, currency_code>>   *)
EXTENDS Chars

W(str) == str     \* words are written as symbol sequences

Lengths == { <<"f","u","l","l">>, <<"l","o","n","g">>, <<"m","e","d","i","u","m">>, <<"s","h","o","r","t">> }
OptionSpec == [
  number   |-> << [arg |-> <<"g","r","o","u","p","i","n","g","US","s","t","r","a","t","e","g","y">>,
                   vals |-> { <<"a","u","t","o">>, <<"n","e","v","e","r">>, <<"a","l","w","a","y","s">>, <<"m","i","n","2">> }, def |-> <<"a","u","t","o">>] >>,
  date     |-> << [arg |-> <<"d","a","t","e","US","l","e","n","g","t","h">>, vals |-> Lengths, def |-> <<"m","e","d","i","u","m">>] >>,
  time     |-> << [arg |-> <<"t","i","m","e","US","l","e","n","g","t","h">>, vals |-> Lengths, def |-> <<"s","h","o","r","t">>] >>,
  datetime |-> << [arg |-> <<"d","a","t","e","US","l","e","n","g","t","h">>, vals |-> Lengths, def |-> <<"m","e","d","i","u","m">>],
                  [arg |-> <<"t","i","m","e","US","l","e","n","g","t","h">>, vals |-> Lengths, def |-> <<"s","h","o","r","t">>] >>,
  list     |-> << [arg |-> <<"l","i","s","t","US","t","y","p","e">>, vals |-> { <<"a","n","d">>, <<"o","r">>, <<"u","n","i","t">> }, def |-> <<"u","n","i","t">>],
                  [arg |-> <<"l","i","s","t","US","s","t","y","l","e">>, vals |-> { <<"w","i","d","e">>, <<"s","h","o","r","t">>, <<"n","a","r","r","o","w">> }, def |-> <<"w","i","d","e">>] >>,
  currency |-> << [arg |-> <<"w","i","d","t","h">>, vals |-> { <<"s","h","o","r","t">>, <<"n","a","r","r","o","w">> }, def |-> <<"s","h","o","r","t">>],
                  [arg |-> <<"c","u","r","r","e","n","c","y","US","c","o","d","e">>, vals |-> { <<"U","S","D">>, <<"E","U","R">>, <<"J","P","Y">> }, def |-> <<"U","S","D">>] >> ]
NameSym == [number |-> <<"n","u","m","b","e","r">>, date |-> <<"d","a","t","e">>, time |-> <<"t","i","m","e">>,
            datetime |-> <<"d","a","t","e","t","i","m","e">>, list |-> <<"l","i","s","t">>, currency |-> <<"c","u","r","r","e","n","c","y">>]
Kinds == DOMAIN OptionSpec

\* written arguments: sequence of [a |-> arg name symbols, v |-> value symbols]
\* the value of an option: the first written argument with that name whose value is recognised, else the default
\* a currency code is any 1 to 3 ASCII letters / digits (the implementation does not check it against ISO 4217)
Recognised(spec, v) == IF spec.arg = <<"c","u","r","r","e","n","c","y","US","c","o","d","e">>
                       THEN Len(v) \in 1..3 /\ \A i \in DOMAIN v : v[i] \in Letters \cup Digits
                       ELSE v \in spec.vals
OptionValue(spec, written) ==
    LET I == { i \in DOMAIN written : written[i].a = spec.arg /\ Recognised(spec, written[i].v) } IN
    IF I = {} THEN spec.def ELSE written[CHOOSE i \in I : \A j \in I : i <= j].v

Meaning(kind, written) ==
    [name |-> kind, args |-> [i \in DOMAIN OptionSpec[kind] |-> Str(OptionValue(OptionSpec[kind][i], written))]]

\* ---- spelling and the parsing algorithm ---------------------------------------------------------
\* ws: [n (around the name), c (around ':'), s (around ';')]
RECURSIVE ArgsText(_, _)
ArgsText(written, ws) ==
    IF written = <<>> THEN <<>>
    ELSE ws.s \o written[1].a \o ws.c \o <<"COLON">> \o ws.c \o written[1].v \o ws.s
         \o (IF Len(written) > 1 THEN <<"SEMI">> ELSE <<>>) \o ArgsText(Tail(written), ws)
FormatterText(kind, written, parens, ws) ==
    ws.n \o NameSym[kind] \o ws.n \o (IF parens THEN <<"LP">> \o ArgsText(written, ws) \o <<"RP">> ELSE <<>>) \o ws.n

\* split s on symbol c
RECURSIVE SplitOn(_, _)
SplitOn(s, c) == LET p == FindFrom(s, <<c>>, 1) IN
                 IF p = 0 THEN <<s>> ELSE <<Before(s, p)>> \o SplitOn(From(s, p + 1), c)
RECURSIVE LastIndexOf(_, _, _)
LastIndexOf(s, c, i) == IF i = 0 THEN 0 ELSE IF s[i] = c THEN i ELSE LastIndexOf(s, c, i - 1)

\* name, then optionally "(" args ")" : args are ';'-separated "a : v" pairs, everything trimmed
ParseFormatter(text) ==
    LET p == FindFrom(text, <<"LP">>, 1)
        q == LastIndexOf(text, "RP", Len(text)) IN
    IF p = 0 \/ q < p THEN [name |-> Trim(text), written |-> <<>>]
    ELSE LET parts == SplitOn(SubSeq(text, p + 1, q - 1), "SEMI")
             pairs == SelectSeq(parts, LAMBDA x : FindFrom(x, <<"COLON">>, 1) # 0) IN
         [name |-> Trim(Before(text, p)),
          written |-> [i \in DOMAIN pairs |-> LET c == FindFrom(pairs[i], <<"COLON">>, 1) IN
                                             [a |-> Trim(Before(pairs[i], c)), v |-> Trim(From(pairs[i], c + 1))]]]

KindOfName(nm) == IF \E k \in Kinds : NameSym[k] = nm THEN CHOOSE k \in Kinds : NameSym[k] = nm ELSE "unknown"
MeaningOfText(text) == LET p == ParseFormatter(text) IN
                       IF KindOfName(p.name) = "unknown" THEN [name |-> "unknown", args |-> <<>>] ELSE Meaning(KindOfName(p.name), p.written)
=============================================================================
