---------------------------- MODULE Trace_Formatter ----------------------------
(* L1: the formatter recorded for `{{ v, text }}` by the real parser is the      *)
(*     meaning of the text (Load events);                                        *)
(* L2: what a generated accessor renders for a formatter key equals direct       *)
(*     ICU4X formatting with the options the text means (Fmt events), whatever   *)
(*     the order of calls and the number of threads.                             *)
EXTENDS FormatterOps, Json, IOUtils

Rec   == ndJsonDeserialize(IOEnv.TRACE)
Cases == ndJsonDeserialize(IOEnv.CASES)
VARIABLE l

LoadTags(ev) ==
    LET a == Cases[ev.case].abs IN
    IF ev.load.outcome # "Ok" THEN {"outcome:" \o ev.load.outcome}
    ELSE LET keys == ev.load.units[1].keys IN
         UNION { LET it == a.items[j] IN
                 IF a.names[j] \notin DOMAIN keys THEN {"nokey:" \o a.names[j]}
                 ELSE LET vars == keys[a.names[j]].vars IN
                      IF "v" \in DOMAIN vars /\ vars["v"].fmts = << Meaning(it.kind, it.written) >> THEN {} ELSE {"formatter:" \o a.names[j]}
               : j \in DOMAIN a.names }

FmtTags(ev) ==
    LET a == Cases[ev.case].abs
        m == MeaningOfText(a.catalogue[ev.key]) IN
    (IF m.name = ev.kind /\ m.args = ev.args THEN {} ELSE {"harness-options-mismatch"})
    \cup (IF ev.out = ev.icu THEN {} ELSE {"output:" \o ev.key \o ":" \o ev.locale})

Tags(ev) == IF ev.ev = "Load" THEN LoadTags(ev)
            ELSE IF ev.ev = "Fmt" THEN FmtTags(ev)
            ELSE IF ev.ev = "Crash" THEN {"crash:" \o ev.outcome}
            ELSE {}

TraceInit == l = 1
TraceNext ==
    /\ l <= Len(Rec)
    /\ l' = l + 1
    /\ LET tags == Tags(Rec[l]) IN
         tags = {} \/ PrintT(<<"REJECT", ToJson([l |-> l, case |-> Rec[l].case, tags |-> tags])>>)
TraceSpec == TraceInit /\ [][TraceNext]_l
Post == PrintT(<<"SUMMARY", ToJson([events |-> Len(Rec), consumed |-> TLCGet("stats").diameter - 1])>>)
=============================================================================
