------------------------------ MODULE Trace_Router ------------------------------
(* Validates the router's path functions: which locale a path reads as, and     *)
(* what a locale switch turns a URL into (path, query string, fragment).        *)
EXTENDS RouterOps, Json, IOUtils

Rec   == ndJsonDeserialize(IOEnv.TRACE)
Cases == ndJsonDeserialize(IOEnv.CASES)
VARIABLE l

KeyOfName(a, nm) == CHOOSE x \in DOMAIN a.names : a.names[x] = nm
\* segments of a raw split ("/a/b" -> <<"", "a", "b">>), empty ones dropped
NonEmpty(raw) == SelectSeq(raw, LAMBDA s : s # "")

\* ---- the real I18nRoute (route families) ---------------------------------------------------------------
\* Match: what RouteDefs::match_route made of a URL.  prefix: text matched by the I18nRoute itself ("/fr" or ""),
\* params: name -> segments.  The URL must start with the base by whole segments (otherwise nothing is claimed: how a router
\* base is compared is leptos_router's business) ...
MatchTags(ev) ==
    LET a == Cases[ev.case].abs
        p == NonEmpty(ev.path_segs) IN
    IF ev.outcome # "Ok" THEN {"match-outcome:" \o ev.outcome}
    ELSE IF ~(Len(p) >= Len(a.base) /\ SubSeq(p, 1, Len(a.base)) = a.base)
         THEN (IF ev.res.matched THEN {"matched-outside-base"} ELSE {})
    ELSE LET r == SubSeq(p, Len(a.base) + 1, Len(p))
             m == MatchUrl(r, a.names, a.order, a.default, a.table)
             got == { <<k, ev.res.params[k]>> : k \in DOMAIN ev.res.params } IN
         IF ev.res.matched # m.matched THEN {IF m.matched THEN "route-not-matched" ELSE "matched-without-route"}
         ELSE IF ~m.matched THEN {}
         ELSE (IF ev.res.prefix = (IF m.loc = None THEN "" ELSE "/" \o m.prefix) THEN {} ELSE {"locale-of-url"})
              \cup (IF got = m.b THEN {} ELSE {"route-parameters"})
\* Routes: the route list the I18nRoute generates
RoutesTags(ev) ==
    LET a == Cases[ev.case].abs IN
    IF ev.routes = GenRoutes(a.names, a.order, a.default, a.table) THEN {} ELSE {"generated-routes"}

Tags(ev) ==
    IF ev.ev = "Crash" THEN {"crash:" \o ev.outcome}
    ELSE IF ev.ev = "Match" THEN MatchTags(ev)
    ELSE IF ev.ev = "Routes" THEN RoutesTags(ev)
    ELSE IF ev.ev # "Url" THEN {}
    ELSE LET a == Cases[ev.case].abs IN
      IF ev.op = "read"
      THEN LET want == ReadLocale(NonEmpty(ev.path_segs), a.base, a.names) IN
           IF ev.res = (IF want = None THEN "none" ELSE a.names[want]) THEN {} ELSE {"read-locale"}
      ELSE IF ev.outcome # "Ok" THEN {"outcome:" \o ev.outcome}
      ELSE LET from == KeyOfName(a, ev.from)
               to   == KeyOfName(a, ev.to)
               inp  == NonEmpty(ev.in_segs)
               \* the default locale has no prefix, but a URL MAY carry it (/en/about reads as en and is served by the en family):
               \* a first segment equal to the name of the `from` locale is its prefix, for the default locale too
               explicit == from = a.default /\ Len(inp) > Len(a.base) /\ SubSeq(inp, 1, Len(a.base)) = a.base /\ inp[Len(a.base) + 1] = a.names[from]
               pre  == IF explicit THEN a.base \o <<a.names[from]>> ELSE a.base \o Prefix(from, a.names, a.default) IN
           \* only inputs that are well-formed URLs of the `from` locale are judged (a previous step was already flagged otherwise)
           IF ~(Len(inp) >= Len(pre) /\ SubSeq(inp, 1, Len(pre)) = pre) THEN {}
           ELSE LET rest == SubSeq(inp, Len(pre) + 1, Len(inp))
                    want == PathOf(a.base, to, Localize(a.table, rest, from, to), a.names, a.default) IN
                (IF ev.out_segs = RawSplit(want) THEN {} ELSE {"switch-path"})
                \cup (IF ev.out_search = "a=1&l=en" THEN {} ELSE {"switch-query"})
                \cup (IF ev.out_hash = "frag-fr" THEN {} ELSE {"switch-fragment"})

TraceInit == l = 1
TraceNext ==
    /\ l <= Len(Rec)
    /\ l' = l + 1
    /\ LET tags == Tags(Rec[l]) IN
         tags = {} \/ PrintT(<<"REJECT", ToJson([l |-> l, case |-> Rec[l].case, tags |-> tags])>>)
TraceSpec == TraceInit /\ [][TraceNext]_l
Post == PrintT(<<"SUMMARY", ToJson([events |-> Len(Rec), consumed |-> TLCGet("stats").diameter - 1])>>)
=============================================================================
