"""C12  Locale negotiation honours the user's order of preference."""
import json

import vp
from checks import loadfam, runtimefam


def check(run):
    res = vp.tlc("MC_Negotiate", "MC_Negotiate_%s.cfg" % run.tier, run.workdir, workers=12, timeout=7200)
    vp.tlc_ok(res, "MC_Negotiate")
    run.add_mc("MC_Negotiate", res)
    mut = vp.tlc("MC_Negotiate", "MC_Negotiate_asimpl.cfg", run.workdir)
    run.notes["spec_mutant_SortScope_global_detected"] = (mut["violated"] == "HonoursPreference")
    if mut["violated"] != "HonoursPreference":
        raise vp.ToolError("spec mutant MC_Negotiate_asimpl was not detected by TLC")
    cases = [json.loads(c) for c in sorted(set(res["tagged"].get("CASE", [])))]
    reqs = [json.loads(c) for c in sorted(set(res["tagged"].get("REQ", [])))]
    if len(cases) < 10 or len(reqs) < 10:
        raise vp.ToolError("MC_Negotiate produced too few cases")
    universe = sorted({t for c in cases for t in c["tags"]} | {t for r in reqs for t in r["tags"] if t != "!!"})
    req_tags = [r["tags"] for r in reqs]
    rows = [{"case": 1, "mode": "universe", "tags": universe}]
    abss = [{}]
    for c in cases:
        rows.append({"case": len(rows) + 1, "mode": "negotiate", "avail": c["tags"], "reqs": req_tags})
        abss.append(c["abs"])
    run.samples = [{"supported": cases[5]["tags"], "requests": req_tags[40:43]}]
    runtimefam.replay_rows(run, rows, abss, "Trace_Negotiate", "Trace_Negotiate.cfg", "_negotiate",
                           key_of=lambda r, ev: "avail=%s;req=%s;api=%s" % (",".join(rows[ev["case"] - 1]["avail"]), ",".join(ev["req"]), ev.get("api")),
                           per_case_timeout=120)
    run.exhaustive = True
    run.notes["supported_sets"] = len(cases)
    run.notes["request_lists"] = len(reqs)
    run.assumptions = ["universe of 11 identifiers (language / script / region / variant combinations) plus an unparsable token; every supported set of size <= 3 "
                       "containing the default (2 defaults), every request list up to the tier's length",
                       "the supported set is chosen at run time through a hand-written `Locale` implementation, so the provided methods find_locale / find_matchs "
                       "(the negotiation code of leptos_i18n) run on every set; generated enums are covered by the C13/C15 checks"]
    return run.finish("all (supported set, request list) pairs of the bounded universe through Locale::find_locale, single requests also through find_matchs; "
                      "non-trivial: pairs where some supported locale matches some request", {"distinct_nontrivial": len(cases) * len(reqs)})


def replay(run, path):
    rp = json.load(open(path))["replay"]
    row = rp["row"]
    rows = [{"case": 1, "mode": "universe", "tags": sorted(set(row["avail"]) | {t for r in row["reqs"] for t in r if t != "!!"})},
            dict(row, case=2, reqs=[rp["event"]["req"]])]
    runtimefam.replay_rows(run, rows, [{}, rp["case"]], "Trace_Negotiate", "Trace_Negotiate.cfg", "_replay",
                           key_of=lambda r, ev: "replay")
    return run.finish("replay of one recorded case")
