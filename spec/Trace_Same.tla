------------------------------ MODULE Trace_Same ------------------------------
(* Two traces of the same inputs (fresh processes) must be identical event by *)
(* event: repeated runs give identical results and diagnostics.               *)
EXTENDS Common, Json, IOUtils
Rec  == ndJsonDeserialize(IOEnv.TRACE)
Rec2 == ndJsonDeserialize(IOEnv.TRACE2)
VARIABLE l
TraceInit == l = 1
TraceNext ==
    /\ l <= Len(Rec)
    /\ l' = l + 1
    /\ (l <= Len(Rec2) /\ Rec[l] = Rec2[l])
        \/ PrintT(<<"REJECT", ToJson([l |-> l, case |-> IF "case" \in DOMAIN Rec[l] THEN Rec[l].case ELSE 0, tags |-> {"runs-differ"}])>>)
TraceSpec == TraceInit /\ [][TraceNext]_l
Post == PrintT(<<"SUMMARY", ToJson([events |-> Len(Rec), consumed |-> TLCGet("stats").diameter - 1])>>)
=============================================================================
