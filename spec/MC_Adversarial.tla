---------------------------- MODULE MC_Adversarial ----------------------------
EXTENDS Adversarial, Json

MCLexemes == { <<"LB","LB">>, <<"RB","RB">>, <<"LT">>, <<"GT">>, <<"SL">>, <<"DOL","t","LP">>, <<"RP">>, <<"COMMA">>,
               <<"LB">>, <<"RB">>, <<"QUOT">>, <<"a">>, <<"E1">>, <<"SP">>, <<"NBSP">>, <<"EMO">>,
               <<"SP","SP">>, <<"NBSP","NBSP">> }   \* runs of blanks: trimmed lengths differ from untrimmed ones by more than a character

EmitCases == PrintT(<<"CASE", ToJson([family |-> "adversarial", mode |-> "value", abs |-> [n |-> n], s |-> s])>>)
MCSpec == Init /\ [][Next]_vars
=============================================================================
