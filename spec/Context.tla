------------------------------- MODULE Context -------------------------------
(* C15  Initial locale resolution follows the documented precedence.          *)
(* C16  A context always shows the last locale set; sub-contexts are isolated.*)
(*                                                                            *)
(* ctxs  : sequence of contexts [locale, parent]   (context 1 is the main one) *)
(* views : sequence of [ctx, depth]: the context view i is a handle on (a      *)
(*         scoped context shares the locale signal) and how deep it is scoped  *)
(* accs  : sequence of reactive accessors [view, key] created so far           *)
(* hist  : the operations performed (observation only)                         *)
EXTENDS Common

CONSTANTS Locs,          \* locales used for set / initial / cookies
          Default,
          HeaderToks,    \* tokens an Accept-Language list is made of
          MaxCtx, MaxViews, MaxAccs

\* best supported locale for one header token (None if unsupported); data of the scenario:
\* the driver's enum supports en en-US en-GB fr fr-CA de ar he zh-Hant-TW sr-Latn sr-Cyrl ca-ES-valencia
TokMatch == [fr |-> "fr", de |-> "de", it |-> None, deAT |-> "de", frCA |-> "fr-CA", bad |-> None]
TokText  == [fr |-> "fr", de |-> "de", it |-> "it", deAT |-> "de-AT", frCA |-> "fr-CA", bad |-> "!!"]

\* ---- C15: the documented precedence -------------------------------------------------------
Best(header) == LET J == { j \in DOMAIN header : TokMatch[header[j]] # None } IN
                IF J = {} THEN Default ELSE TokMatch[header[CHOOSE j \in J : \A k \in J : j <= k]]
\* cookie: [state |-> "absent" | "valid" | "invalid", l |-> locale, sp |-> spelling of the header]
CookieLocale(cookie) == IF cookie.state = "valid" THEN cookie.l ELSE None
MainLocale(enable, cookie, header) ==
    IF enable /\ CookieLocale(cookie) # None THEN CookieLocale(cookie) ELSE Best(header)
SubLocale(cookieOn, cookie, initial, parentLocale, header) ==
    IF cookieOn /\ CookieLocale(cookie) # None THEN CookieLocale(cookie)
    ELSE IF initial # None THEN initial
    ELSE IF parentLocale # None THEN parentLocale
    ELSE Best(header)

\* ---- the machine ---------------------------------------------------------------------------
VARIABLES ctxs, views, accs, hist
vars == <<ctxs, views, accs, hist>>

\* sp: how the Cookie header spells that state (the driver owns the text)
\*   absent : "none" no Cookie header, "other" an unrelated cookie, "prefix" / "suffix" cookies whose NAME merely contains ours
\*   valid  : "only", "first", "last" among other cookies, "decoy" between look-alike names holding another locale
\*   invalid: "unknown" value, "empty" value, "case" a configured name in the wrong case, "noeq" the name without a value
Spellings == [absent |-> {"none", "other", "prefix", "suffix"}, valid |-> {"only", "first", "last", "decoy"}, invalid |-> {"unknown", "empty", "case", "noeq"}]
Cookies == { [state |-> st, l |-> None, sp |-> sp] : st \in {"absent", "invalid"}, sp \in Spellings.absent \cup Spellings.invalid }
           \cup { [state |-> "valid", l |-> x, sp |-> sp] : x \in Locs, sp \in Spellings.valid }
CookieOK(c) == c.sp \in Spellings[c.state]
Headers == { <<>> } \cup { <<a>> : a \in HeaderToks } \cup { <<a, b>> : a \in HeaderToks, b \in HeaderToks }

\* hsp: how the Accept-Language header spells the list (the driver owns the text): "tight" a,b  "spaced" a, b
\*      "q" a;q=0.9, b;q=0.8   "star" a, b, *;q=0.1
CONSTANT HeaderSpellings
CreateMainOp(enable, custom, cookie, header, hsp) ==
    [op |-> "create_main", enable |-> enable, custom |-> custom, cookie |-> cookie, header |-> header, hsp |-> hsp]

InitWith(Enables, Customs, Cks, Hds) ==
    \E enable \in Enables, custom \in Customs, cookie \in Cks, header \in Hds, hsp \in HeaderSpellings :
        /\ CookieOK(cookie)
        /\ (Len(header) < 2 => hsp = CHOOSE x \in HeaderSpellings : TRUE)      \* one spelling is enough for short lists
        /\ ctxs = << [locale |-> MainLocale(enable, cookie, header), parent |-> 0] >>
        /\ views = << [ctx |-> 1, depth |-> 0] >> /\ accs = <<>>
        /\ hist = << CreateMainOp(enable, custom, cookie, header, hsp) >>

\* parent = 0: created where no context is provided
\* via: "init" - init_i18n_subcontext_with_options called directly; "provider" - <I18nSubContextProvider> rendered where the parent is
\* the current context.  The locale a sub-context starts with does not depend on it; what `use_i18n()` finds afterwards does (Lookup).
CreateSubVia(parent, cookieOn, cookie, initial, header, via) == \E hsp \in HeaderSpellings :
    /\ CookieOK(cookie)
    /\ (Len(header) < 2 => hsp = CHOOSE x \in HeaderSpellings : TRUE)
    /\ Len(ctxs) < MaxCtx /\ Len(views) < MaxViews
    /\ ctxs' = Append(ctxs, [locale |-> SubLocale(cookieOn, cookie, initial, IF parent = 0 THEN None ELSE ctxs[parent].locale, header),
                             parent |-> parent])
    /\ views' = Append(views, [ctx |-> Len(ctxs) + 1, depth |-> 0])
    /\ (via = "provider" => parent # 0)
    /\ hist' = Append(hist, [op |-> "create_sub", parent |-> parent, cookieOn |-> cookieOn, cookie |-> cookie, initial |-> initial, header |-> header, hsp |-> hsp, via |-> via])
    /\ UNCHANGED accs
CreateSub(parent, cookieOn, cookie, initial, header) == CreateSubVia(parent, cookieOn, cookie, initial, header, "init")

\* `use_i18n()` evaluated where context c is the current one - also AFTER sub-contexts were created below it: a new handle on c
\* itself, never on one of its sub-contexts (a provider makes its sub-context current for its children only)
Lookup(c) ==
    /\ Len(views) < MaxViews /\ c \in DOMAIN ctxs
    /\ views' = Append(views, [ctx |-> c, depth |-> 0])
    /\ hist' = Append(hist, [op |-> "lookup", ctx |-> c])
    /\ UNCHANGED <<ctxs, accs>>

\* flavours that are SUBSCRIBERS of the locale signal (a Memo, an Effect): they hold what they computed when they were last notified.
\* A tracked set notifies every subscriber of the context's signal (through whichever view it was created), an untracked set
\* notifies nobody - by definition - and the NEXT tracked set brings the subscribers up to date, whatever value it sets.
Subscribers == {"memo", "effect"}
SetLocale(v, x, tracked) ==
    /\ ctxs' = [ctxs EXCEPT ![views[v].ctx].locale = x]
    /\ hist' = Append(hist, [op |-> "set", view |-> v, locale |-> x, tracked |-> tracked])
    /\ accs' = [a \in DOMAIN accs |->
                 IF tracked /\ accs[a].flavour \in Subscribers /\ views[accs[a].view].ctx = views[v].ctx
                 THEN [accs[a] EXCEPT !.seen = x] ELSE accs[a]]
    /\ UNCHANGED views

ScopeView(v) ==
    /\ Len(views) < MaxViews /\ views[v].depth < 2
    /\ views' = Append(views, [ctx |-> views[v].ctx, depth |-> views[v].depth + 1])
    /\ hist' = Append(hist, [op |-> "scope", view |-> v])
    /\ UNCHANGED <<ctxs, accs>>

\* key "inner" lives one level below the root, "leaf" two levels below, "fmt" is a formatter accessor (no key path);
\* flavour: string / rendered view / Display / t_format! view / t_format_string!
MakeAccessor(v, key, flavour) ==
    /\ Len(accs) < MaxAccs /\ (key = "inner" => views[v].depth <= 1)
    /\ accs' = Append(accs, [view |-> v, key |-> key, flavour |-> flavour, seen |-> ctxs[views[v].ctx].locale])
    /\ hist' = Append(hist, [op |-> "make_accessor", view |-> v, key |-> key, flavour |-> flavour])
    /\ UNCHANGED <<ctxs, views>>

\* ---- what is observable after every step (C16) -------------------------------------------------
ShownLocale(v) == ctxs[views[v].ctx].locale
Obs == [views |-> [v \in DOMAIN views |-> ShownLocale(v)],
        \* the text of key k in locale x is "k-x"; a subscriber shows the locale it saw at its last notification
        accs  |-> [a \in DOMAIN accs |-> accs[a].key \o "-" \o (IF accs[a].flavour \in Subscribers THEN accs[a].seen ELSE ShownLocale(accs[a].view))]]

\* setting through any view of a context changes what every view of that context shows, and nothing else
SetIsolation ==
    [][\A v \in DOMAIN views, x \in Locs, t \in BOOLEAN :
          SetLocale(v, x, t) =>
            /\ \A w \in DOMAIN views : views[w].ctx = views[v].ctx => ctxs'[views[w].ctx].locale = x
            /\ \A c \in DOMAIN ctxs : c # views[v].ctx => ctxs'[c].locale = ctxs[c].locale]_vars
\* creating a sub-context never changes an existing context
CreateIsolation == [][Len(ctxs') > Len(ctxs) => \A c \in DOMAIN ctxs : ctxs'[c] = ctxs[c]]_vars
TypeOK == /\ \A c \in DOMAIN ctxs : ctxs[c].locale \in (Locs \cup {Default} \cup { TokMatch[t] : t \in DOMAIN TokMatch }) \ {None}
          /\ \A v \in DOMAIN views : views[v].ctx \in DOMAIN ctxs
=============================================================================
