------------------------------- MODULE LocaleId -------------------------------
(* C13  Locale identifiers round-trip through every representation.           *)
(* A locale set is a sequence of names (symbol sequences), default first.     *)
(* The machine renders a locale to text, optionally mutates the text, parses  *)
(* it back; parsing accepts exactly the configured names, surrounded by       *)
(* optional whitespace (the generated FromStr trims).                         *)
EXTENDS Chars

N(s) == s
Sets == [
  A |-> << <<"e","n">>, <<"e","n","DASH","U","S">>, <<"e","n","DASH","G","B">>, <<"f","r">>, <<"f","r","DASH","C","A">>, <<"d","e">>,
           <<"a","r">>, <<"h","e">>, <<"z","h","DASH","H","a","n","t","DASH","T","W">>, <<"s","r","DASH","L","a","t","n">>,
           <<"s","r","DASH","C","y","r","l">>, <<"c","a","DASH","E","S","DASH","v","a","l","e","n","c","i","a">> >>,
  B |-> << <<"f","r">>, <<"f","r","DASH","F","R">>, <<"f","r","DASH","C","A">> >>,
  C |-> << <<"a","r">>, <<"h","e">>, <<"f","a">>, <<"u","r">>, <<"e","n">> >>,
  D |-> << <<"z","h","DASH","H","a","n","s">>, <<"z","h","DASH","H","a","n","t","DASH","T","W">>, <<"j","a">> >>,
  E |-> << <<"d","e">> >>,
  \* names that are valid tags but not canonically cased: the configured NAME is what every string form must show
  F |-> << <<"e","n">>, <<"e","n","DASH","u","s">>, <<"p","t","DASH","b","r">>, <<"z","h","DASH","h","a","n","t">> >>,
  \* the REGION decides the script, hence the direction (Punjabi in Pakistan, Azerbaijani in Iran, Uzbek in Afghanistan are written
  \* right to left), next to the same languages without a region and with an explicit script
  G |-> << <<"e","n">>, <<"p","a">>, <<"p","a","DASH","P","K">>, <<"a","z">>, <<"a","z","DASH","I","R">>, <<"a","z","DASH","A","r","a","b">>,
           <<"u","z","DASH","A","F">>, <<"a","r","DASH","E","G">>, <<"h","e","DASH","I","L">> >>,
  \* valid language identifiers of less usual shapes: the undetermined language, a variant without region, numeric regions, a
  \* name in the wrong case, a variant after the language
  H |-> << <<"e","n">>, <<"u","n","d">>, <<"d","e","DASH","1","9","9","6">>, <<"e","n","DASH","0","0","1">>, <<"e","s","DASH","4","1","9">>,
           <<"E","N","DASH","g","b">>, <<"c","a","DASH","v","a","l","e","n","c","i","a">> >> ]

Lower == [A |-> "a", B |-> "b", C |-> "c", D |-> "d", E |-> "e", F |-> "f", G |-> "g", H |-> "h", I |-> "i", J |-> "j", K |-> "k", L |-> "l", M |-> "m",
          N |-> "n", O |-> "o", P |-> "p", Q |-> "q", R |-> "r", S |-> "s", T |-> "t", U |-> "u", V |-> "v", W |-> "w", X |-> "x", Y |-> "y", Z |-> "z"]
ToLower(c) == IF c \in DOMAIN Lower THEN Lower[c] ELSE c
ToUpper(c) == IF \E u \in DOMAIN Lower : Lower[u] = c THEN CHOOSE u \in DOMAIN Lower : Lower[u] = c ELSE c

MutOps == {"id", "upper", "lower", "lead_sp", "trail_sp", "both_nbsp", "lead_tab", "suffix_x", "prefix_x", "drop_last", "underscore", "double", "empty", "inner_sp"}
Mutate(op, s) ==
    CASE op = "id" -> s
      [] op = "upper" -> [i \in DOMAIN s |-> ToUpper(s[i])]
      [] op = "lower" -> [i \in DOMAIN s |-> ToLower(s[i])]
      [] op = "lead_sp" -> <<"SP">> \o s
      [] op = "trail_sp" -> s \o <<"SP", "SP">>
      [] op = "both_nbsp" -> <<"NBSP">> \o s \o <<"NBSP">>
      [] op = "lead_tab" -> <<"TAB">> \o s \o <<"NL">>
      [] op = "suffix_x" -> s \o <<"x">>
      [] op = "prefix_x" -> <<"x">> \o s
      [] op = "drop_last" -> SubSeq(s, 1, Len(s) - 1)
      [] op = "underscore" -> [i \in DOMAIN s |-> IF s[i] = "DASH" THEN "US" ELSE s[i]]
      [] op = "double" -> s \o s
      [] op = "empty" -> <<>>
      [] OTHER -> <<s[1], "SP">> \o Tail(s)

\* index of the locale a text parses to, 0 = not a locale
ParseName(set, text) ==
    LET t == Trim(text)
        I == { i \in DOMAIN set : set[i] = t } IN
    IF I = {} THEN 0 ELSE CHOOSE i \in I : TRUE
\* serde / cookie decoding falls back to the default locale (index 1)
ParseOrDefault(set, text) == IF ParseName(set, text) = 0 THEN 1 ELSE ParseName(set, text)

CONSTANT SetNames
VARIABLES set, loc, text, parsed, phase
vars == <<set, loc, text, parsed, phase>>
Init == set \in SetNames /\ loc = 0 /\ text = <<>> /\ parsed = -1 /\ phase = "pick"
Render(i) == phase = "pick" /\ i \in DOMAIN Sets[set] /\ loc' = i /\ text' = Sets[set][i] /\ phase' = "text" /\ UNCHANGED <<set, parsed>>
Mut(op) == phase = "text" /\ text' = Mutate(op, text) /\ phase' = "mutated" /\ UNCHANGED <<set, loc, parsed>>
Parse == phase \in {"text", "mutated"} /\ parsed' = ParseName(Sets[set], text) /\ phase' = "parsed" /\ UNCHANGED <<set, loc, text>>
Next == (\E i \in 1..14 : Render(i)) \/ (\E op \in MutOps : Mut(op)) \/ Parse

\* rendering then parsing is the identity; a mutated text parses to a locale only if it is that locale's name (modulo blanks)
RoundTrip == (phase = "parsed" /\ text = Sets[set][loc]) => parsed = loc
NoForeignParse == (phase = "parsed" /\ parsed # 0) => Trim(text) = Sets[set][parsed]
NamesDistinct == \A s \in SetNames : \A i, j \in DOMAIN Sets[s] : i # j => Sets[s][i] # Sets[s][j]
=============================================================================
