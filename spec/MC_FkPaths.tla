------------------------------ MODULE MC_FkPaths ------------------------------
EXTENDS FkPaths, Json, TLC
VARIABLE done
Init == done = FALSE
Next == ~done /\ PrintT(<<"CASE", ToJson(Case)>>) /\ done' = TRUE
Spec == Init /\ [][Next]_done
\* the four keys named c are four different texts, and the references reach them
Distinct == \A x \in Range(Locs) : Cardinality({ Denote(x, Leaves(x)[p]) : p \in { <<"a","b","c">>, <<"a","c">>, <<"b","c">>, <<"c">> } }) = 4
=============================================================================
