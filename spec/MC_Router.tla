------------------------------- MODULE MC_Router -------------------------------
EXTENDS Router, RouterUniverse, Json

EmitCases == (n = 0) =>
    PrintT(<<"CASE", ToJson([family |-> "router",
                             abs |-> [set |-> ls.set, names |-> ls.names, order |-> ls.order, default |-> ls.default, base |-> base, table |-> table,
                                      rest |-> rest0, cur |-> cur0]])>>)
MCSpec == Init /\ [][Next]_vars
NoTrail == <<ls, base, table, rest0, cur0, cur, rest, n>>
=============================================================================
