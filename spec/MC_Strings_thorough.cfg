CONSTANTS
  Alphabet <- MCAlphabet
  Literals <- MCLiterals
  MaxLen = 5
SPECIFICATION MCSpec
INVARIANTS RoundTrip EscapedIsOneLine IndexOK EmitCases
CHECK_DEADLOCK FALSE
