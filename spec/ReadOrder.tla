------------------------------ MODULE ReadOrder ------------------------------
(* C10  Results depend only on content, not on order, run or file format.     *)
(* The entries of each locale file are consumed in ANY order (the order keys  *)
(* are written in the file, which the three readers preserve), then locales   *)
(* are merged in any order.  The result must be a function of the content:    *)
(* the key -> value map per locale, the multiset of diagnostics, and the text  *)
(* a literal renders (its numeric *type* may differ between formats: `5` is   *)
(* unsigned for JSON and YAML, signed for JSON5 - the text is "5" for all).   *)
EXTENDS Common

CONSTANTS Contents,   \* set of functions locale -> (function key -> value token)
          Formats

VARIABLES content, fmt, pending, maps, merged, diags
vars == <<content, fmt, pending, maps, merged, diags>>

Locales == {"en", "fr"}
Init == /\ content \in Contents /\ fmt \in Formats
        /\ pending = [x \in Locales |-> DOMAIN content[x]]
        /\ maps = [x \in Locales |-> << >>] /\ merged = {} /\ diags = <<>>

\* how a reader types the token: numbers without sign are unsigned except for JSON5
Typed(tok, f) == IF tok = "5" THEN [text |-> "5", ty |-> IF f = "json5" THEN "Signed" ELSE "Unsigned"]
                 ELSE IF tok = "null" THEN [text |-> "", ty |-> "Null"]
                 ELSE [text |-> tok, ty |-> "String"]

Read(x, k) ==
    /\ k \in pending[x]
    /\ pending' = [pending EXCEPT ![x] = @ \ {k}]
    /\ maps' = [maps EXCEPT ![x] = (k :> Typed(content[x][k], fmt)) @@ @]
    /\ UNCHANGED <<content, fmt, merged, diags>>

\* merging a non-default locale: one diagnostic per missing / surplus key (absent, not null)
Merge(x) ==
    /\ \A y \in Locales : pending[y] = {}
    /\ x \in Locales \ ({"en"} \cup merged)
    /\ merged' = merged \cup {x}
    /\ diags' = diags \o SortedSeq({ <<"missing", x, k>> : k \in DOMAIN maps["en"] \ DOMAIN maps[x] })
                      \o SortedSeq({ <<"surplus", x, k>> : k \in DOMAIN maps[x] \ DOMAIN maps["en"] })
    /\ UNCHANGED <<content, fmt, pending, maps>>

Next == (\E x \in Locales : \E k \in pending[x] : Read(x, k)) \/ (\E x \in Locales : Merge(x))
Done == (\A y \in Locales : pending[y] = {}) /\ merged = Locales \ {"en"}

\* the result is a function of the content
MapsAreContent == Done => \A x \in Locales : /\ DOMAIN maps[x] = DOMAIN content[x]
                                             /\ \A k \in DOMAIN maps[x] : maps[x][k].text = Typed(content[x][k], "json").text
DiagsAreContent == Done => /\ Range(diags) = { <<"missing", "fr", k>> : k \in DOMAIN content["en"] \ DOMAIN content["fr"] }
                                             \cup { <<"surplus", "fr", k>> : k \in DOMAIN content["fr"] \ DOMAIN content["en"] }
                           /\ Len(diags) = Cardinality(Range(diags))
Termination == <>Done
=============================================================================
