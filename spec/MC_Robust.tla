------------------------------ MODULE MC_Robust ------------------------------
(* Emits the adversarial projects of RobustCases (no state machine of its own; *)
(* the model-checked part of C09 is MC_Adversarial).                           *)
EXTENDS RobustCases, Json
CONSTANT Depths
DepthsQuick == <<10, 100>>
DepthsThorough == <<10, 100, 1000, 3000>>
VARIABLE i
All == Fixed \o Cat([d \in 1..Len(Depths) |-> Deep(Depths[d])])
Init == i = 1
Next == i <= Len(All) /\ PrintT(<<"CASE", ToJson(All[i])>>) /\ i' = i + 1
Spec == Init /\ [][Next]_i
=============================================================================
