-------------------------------- MODULE MC_Sig --------------------------------
EXTENDS Sig, FkCases

Locs3 == {"en", "fr", "de"}
KindNames == {"text", "num", "varx", "vary_compb", "comp_only", "comp_nested_only", "comp_var_only", "range_u8", "range_i8", "plural", "plural_renamed", "range_fk_renamed", "range_fk_mixed_then_var", "range_f32_fk_at_excl_end", "null"}

RangeOf(ty, tag) == [k |-> "ranges", ty |-> ty, ck |-> Cnt,
                     b |-> << [alts |-> <<Exact(2)>>, v |-> <<T(tag \o <<"1">>), V(X)>>], [alts |-> <<Wild>>, v |-> <<T(tag \o <<"2">>), V(Cnt)>>] >>]
PluralOf(tag) == [k |-> "plurals", ty |-> "cardinal", ck |-> Cnt,
                  forms |-> [one |-> <<T(tag \o <<"1">>), V(Cnt)>>, other |-> <<T(tag \o <<"2">>), V(Y)>>]]
N1 == <<"n">>
\* a range whose arms mix a variable, a plain literal and the count (in that order), reached through a reference from a value
\* that uses the same variable again after the reference
RangeMixed == [k |-> "ranges", ty |-> "i32", ck |-> Cnt,
               b |-> << [alts |-> <<Exact(3)>>, v |-> <<V(X), T(<<"SP","a">>)>>], [alts |-> <<Exact(4)>>, v |-> <<T(<<"l","i","t">>)>>],
                        [alts |-> <<Wild>>, v |-> <<V(Cnt), T(<<"SP","m">>)>>] >>]

\* a float range whose first arm ends EXCLUSIVELY where the second begins; a reference fixes the count exactly there, so the
\* arguments of the referring key are those of the SECOND arm (floats keep their exclusive ends, integers are normalised)
RangeF32 == [k |-> "ranges", ty |-> "f32", ck |-> Cnt,
             b |-> << [alts |-> <<Excl(2, 5)>>, v |-> <<T(<<"l","o","SP">>), V(X)>>],
                      [alts |-> <<Excl(5, 6)>>, v |-> <<T(<<"h","i","SP">>), Comp(<<"b">>, <<V(Y)>>)>>],
                      [alts |-> <<Wild>>, v |-> <<T(<<"o">>)>>] >>]
NumF32(i) == ArgN(Cnt, Anchor["f32"][i], Disp["f32"][i], i, "")

\* the entry of key k in locale x for a kind
EntryFor(kind, x) ==
    LET tag == LocTag[x] IN
    CASE kind = "text" -> Val(<<T(tag \o <<"t">>)>>)
      [] kind = "num" -> Val(<<T(<<"5">>)>>)
      [] kind = "varx" -> Val(<<T(tag), V(X)>>)
      [] kind = "vary_compb" -> Val(<<Comp(<<"b">>, <<V(Y)>>), T(tag)>>)
      [] kind = "comp_only" -> Val(<<Comp(<<"b">>, <<T(tag)>>)>>)                              \* the whole value is one component around plain text
      [] kind = "comp_nested_only" -> Val(<<Comp(<<"i">>, <<Comp(<<"b">>, <<T(tag)>>)>>)>>)
      [] kind = "comp_var_only" -> Val(<<Comp(<<"a">>, <<V(Y)>>)>>)
      [] kind = "range_u8" -> RangeOf("u8", tag)
      [] kind = "range_i8" -> RangeOf("i8", tag)
      [] kind = "plural" -> PluralOf(tag)
      [] kind = "plural_renamed" -> Val(<<T(tag), Fk(<<"p">>, <<ArgP(Cnt, <<V(N1)>>)>>)>>)
      [] kind = "range_fk_renamed" -> Val(<<Fk(<<"r">>, <<ArgP(Cnt, <<V(N1)>>), ArgP(X, <<T(<<"A">>)>>)>>)>>)
      [] kind = "range_fk_mixed_then_var" -> Val(<<Fk(<<"s">>, <<>>), T(<<"SP">> \o tag), V(X)>>)
      [] kind = "range_f32_fk_at_excl_end" -> Val(<<T(tag), Fk(<<"f">>, <<NumF32(5)>>)>>)
      [] OTHER -> [k |-> "null"]

ProjectFor(kinds) ==
    [def |-> "en", locs |-> <<"en", "fr", "de">>, inh |-> << >>,
     vals |-> [x \in Locs3 |-> [k |-> EntryFor(kinds[x], x), p |-> PluralOf(<<"p">>), r |-> RangeOf("u8", <<"r">>), s |-> RangeMixed, f |-> RangeF32]]]

ContribOf(kinds) ==
    LET P == ProjectFor(kinds) IN
    [x \in Locs3 |->
        IF kinds[x] = "null" THEN [vars |-> {}, comps |-> {}, counts |-> {}]
        ELSE LET v == Resolved(P, x, "k").v IN
             [vars |-> VarsIn(v) \cup { c[1] : c \in CountsIn(v) }, comps |-> CompsIn(v), counts |-> CountsIn(v)]]

KindChoices == { kk \in [Locs3 -> KindNames] : kk["en"] # "null" }

VARIABLE kinds
MCInit == kinds \in KindChoices /\ InitWith(ContribOf(kinds))
MCNext == Next /\ UNCHANGED kinds
EmitCases == (todo = Locs3 /\ ~err) =>
    PrintT(<<"CASE", ToJson(ProjectCase("sig-mix", ProjectFor(kinds), [k \in {"k", "p", "r", "s", "f"} |-> k],
                                        IF MustFail(contrib) THEN "must-fail" ELSE "none"))>>)
MCSpec == MCInit /\ [][MCNext]_<<vars, kinds>> /\ WF_<<vars, kinds>>(MCNext)
=============================================================================
