CONSTANTS
  Locs = {"en", "fr", "de"}
  Default = "en"
  HeaderSpellings = {"spaced"}
  HeaderToks = {"fr", "it"}
  MaxCtx = 3
  MaxViews = 4
  MaxAccs = 2
  Mode = "c16"
  AccSet = "wide"
  SubVariants = "small"
  MaxHist = 3
SPECIFICATION MCSpec
INVARIANTS TypeOK EmitCases
CONSTRAINT HistBound
CHECK_DEADLOCK FALSE
