------------------------------ MODULE MC_Context ------------------------------
EXTENDS Context, Json

CONSTANTS Mode, MaxHist, SubVariants, AccSet
Keys2 == {"leaf", "inner"}
\* accessors: <<key, flavour>>.  "base": the string and rendered-view flavours of the two keys;  "wide": also the Display flavour
\* and the formatter accessors (t_format! / t_format_string!, key "fmt": no key path, the text tells the locale apart) and the
\* subscribers (a Memo / an Effect around t_string!)
AccOptions == { <<k, f>> : k \in Keys2, f \in {"string", "view"} }
              \cup (IF AccSet = "wide" THEN { <<"inner", "display">>, <<"fmt", "format">>, <<"fmt", "format_string">>,
                                             <<"leaf", "memo">>, <<"leaf", "effect">> } ELSE {})

\* C15: every creation parameter of the main context, then at most one sub-context with every parameter
Init15 == InitWith(BOOLEAN, BOOLEAN, Cookies, Headers)
\* (sub-contexts are created under the main contexts that use the plain spellings: the spellings of the two creations are
\* independent, so their product adds cases without adding behaviour)
PlainMain == LET m == hist[1] IN ~m.custom /\ m.cookie.sp \in {"other", "last", "unknown"} /\ (Len(m.header) < 2 \/ m.hsp = "spaced")
Next15 == /\ Len(ctxs) = 1 /\ PlainMain
          /\ \E parent \in {0, 1}, cookieOn \in BOOLEAN,
                cookie \in (IF SubVariants = "full" THEN Cookies ELSE { [state |-> "absent", l |-> None, sp |-> "prefix"], [state |-> "invalid", l |-> None, sp |-> "case"], [state |-> "valid", l |-> "de", sp |-> "decoy"] }),
                initial \in (IF SubVariants = "full" THEN Locs \cup {None} ELSE {None, "fr"}),
                header \in (IF SubVariants = "full" THEN { <<>>, <<"de">>, <<"it", "frCA">> } ELSE { <<"it", "frCA">> }) :
                CreateSub(parent, cookieOn, cookie, initial, header)

\* C16: a few starting points, then histories of set / scope / accessor / sub-context operations
Init16 == InitWith({TRUE}, {FALSE}, { [state |-> "absent", l |-> None, sp |-> "other"], [state |-> "valid", l |-> "fr", sp |-> "last"] }, { <<>>, <<"de">> })
Next16 == \/ \E v \in DOMAIN views, x \in Locs, t \in BOOLEAN : SetLocale(v, x, t)
          \/ \E v \in DOMAIN views : ScopeView(v)
          \/ \E v \in DOMAIN views, o \in AccOptions : MakeAccessor(v, o[1], o[2])
          \/ \E parent \in DOMAIN ctxs, initial \in {None, "de"}, via \in {"init", "provider"} :
                CreateSubVia(parent, FALSE, [state |-> "absent", l |-> None, sp |-> "other"], initial, <<>>, via)
          \/ \E c \in DOMAIN ctxs : Lookup(c)

MCInit == IF Mode = "c15" THEN Init15 ELSE Init16
MCNext == IF Mode = "c15" THEN Next15 ELSE Next16
MCSpec == MCInit /\ [][MCNext]_vars

\* abstract-state exploration ignores the history ...
NoHist == <<ctxs, views, accs>>
\* ... behaviour generation keeps it, bounded
HistBound == Len(hist) <= MaxHist
\* one CASE per behaviour.  C15: every state (behaviours are one or two creations);  C16: full-length behaviours only (a shorter
\* one is the prefix of a longer one, which replays it)
EmitCases == (Mode = "c16" /\ Len(hist) < MaxHist) \/ PrintT(<<"CASE", ToJson([family |-> "context", mode |-> Mode, abs |-> [hist |-> hist, default |-> Default]])>>)
=============================================================================
