"""C13  Locale identifiers round-trip through every representation."""
import json

import vp
from checks import loadfam, runtimefam


def check(run):
    cases, res = loadfam.gen_cases(run, "MC_LocaleId", "MC_LocaleId.cfg")
    if len(cases) < 3:
        raise vp.ToolError("MC_LocaleId produced too few cases")
    rows, abss = [], []
    for c in cases:
        a = c["abs"]
        a["name_text"] = [vp.text_of(n) for n in a["names"]]
        a["probe_text"] = [vp.text_of(p) for p in a["probes"]]
        rows.append({"case": len(rows) + 1, "mode": "ident", "set": a["set"], "probes": a["probe_text"]})
        abss.append(a)
    run.samples = [{"set": abss[0]["set"], "names": abss[0]["name_text"], "probes": abss[0]["probe_text"][:8]}]
    runtimefam.replay_rows(run, rows, abss, "Trace_LocaleId", "Trace_LocaleId.cfg", "_ident",
                           key_of=lambda r, ev: "set=%s;op=%s;arg=%s;%s" % (ev.get("set"), ev.get("op"), ev.get("arg", ev.get("locale")), sorted(r["tags"])[0]))
    run.exhaustive = True
    run.assumptions = ["5 locale sets (12-locale load_locales! enum with regions / scripts / variants / near-duplicates / RTL; 4 declare_locales! enums incl. an RTL default and a single-locale set)",
                       "14 mutation operators applied to every name (case, surrounding blanks incl. U+00A0, prefix / suffix, '_' for '-', doubling, inner blank, empty)",
                       "surrounding whitespace is treated as the same name because the generated FromStr deliberately trims",
                       "text direction is compared with CLDR through direct icu_locid_transform calls of the driver"]
    return run.finish("every locale of every set through every representation, every mutated name through every parser; non-trivial: every (set, probe) pair",
                      {"distinct_nontrivial": sum(len(a["probes"]) for a in abss)})


def replay(run, path):
    raise vp.ToolError("replay: re-run `bin/check C13`; set, operation and argument are in the replay file")
