----------------------------- MODULE Trace_Value -----------------------------
(* Validates what the real value parser / pipeline produced for generated     *)
(* well-formed values against the AST they were written from.                 *)
(*   Value event : ParsedValue::new on one spelling of one value              *)
(*   Load  event : a two-locale project holding many values as keys           *)
EXTENDS Value, Json, IOUtils

Rec   == ndJsonDeserialize(IOEnv.TRACE)
Cases == ndJsonDeserialize(IOEnv.CASES)

VARIABLE l

ValueTags(ev) ==
    LET c == Cases[ev.case] IN
    IF ev.res.outcome # "Ok" THEN {"outcome:" \o ev.res.outcome}
    ELSE IF ev.res.tree # TreeOf(c.abs.ast) THEN {"tree"} ELSE {}

\* project: abs.names[j] holds abs.values[j] in locale en and abs.values[N+1-j] in locale fr
LoadTags(ev) ==
    LET a == Cases[ev.case].abs
        n == Len(a.names) IN
    IF ev.load.outcome # "Ok" THEN {"outcome:" \o ev.load.outcome}
    ELSE LET keys == ev.load.units[1].keys IN
         UNION { IF a.names[j] \notin DOMAIN keys THEN {"nokey:" \o a.names[j]}
                 ELSE LET e == keys[a.names[j]] IN
                      (IF e.vals["en"] # TreeOf(a.values[j]) THEN {"tree:en:" \o a.names[j]} ELSE {})
                      \cup (IF e.vals["fr"] # TreeOf(a.values[n + 1 - j]) THEN {"tree:fr:" \o a.names[j]} ELSE {})
                      \cup (IF { x \in DOMAIN e.vars : TRUE } # VarsOf(a.values[j]) \cup VarsOf(a.values[n + 1 - j])
                               THEN {"vars:" \o a.names[j]} ELSE {})
                      \cup (IF Range(e.comps) # CompsOf(a.values[j]) \cup CompsOf(a.values[n + 1 - j])
                               THEN {"comps:" \o a.names[j]} ELSE {})
               : j \in 1..n }

\* L2: what a generated accessor rendered for key names[j] in a locale, with environment env (var name -> symbols)
RenderTags(ev) ==
    LET a == Cases[ev.case].abs
        n == Len(a.names)
        ast == IF ev.locale = "en" THEN a.values[ev.j] ELSE a.values[n + 1 - ev.j] IN
    IF ev.outcome # "Ok" THEN {"render-outcome:" \o ev.outcome}
    ELSE IF ev.out = Denote(ast, ev.env) THEN {} ELSE {"render:" \o ev.flav \o ":" \o ev.locale \o ":" \o a.names[ev.j]}

\* many-locale project (MC_ManyLoc): key m differs in every locale, key h is null in the even locales (default = locale 1)
RenderManyTags(ev) ==
    LET a == Cases[ev.case].abs
        shown == IF ev.key = "m" \/ ev.li % 2 = 1 THEN ev.li ELSE 1 IN
    IF ev.outcome # "Ok" THEN {"render-outcome:" \o ev.outcome}
    ELSE IF ev.out = Denote(a.values[shown], ev.env) THEN {} ELSE {"render-many:" \o ev.flav \o ":" \o a.locs[ev.li] \o ":" \o ev.key}

Tags(ev) == IF ev.ev = "Value" THEN ValueTags(ev)
            ELSE IF ev.ev = "RenderMany" THEN RenderManyTags(ev)
            ELSE IF ev.ev = "Render" THEN RenderTags(ev)
            ELSE IF ev.ev = "Load" THEN LoadTags(ev)
            ELSE IF ev.ev = "Crash" THEN {"crash:" \o ev.outcome}
            ELSE {}

TraceInit == l = 1
TraceNext ==
    /\ l <= Len(Rec)
    /\ l' = l + 1
    /\ LET tags == Tags(Rec[l]) IN
         tags = {} \/ PrintT(<<"REJECT", ToJson([l |-> l, case |-> Rec[l].case, tags |-> tags])>>)
TraceSpec == TraceInit /\ [][TraceNext]_l

Post == PrintT(<<"SUMMARY", ToJson([events |-> Len(Rec), consumed |-> TLCGet("stats").diameter - 1])>>)
=============================================================================
