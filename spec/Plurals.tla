------------------------------- MODULE Plurals -------------------------------
(* The grouping algorithm of the implementation, one action per key visited   *)
(* (in any order) and one per group closed, against the declarative Merge.    *)
(* SharedSlot names a point of attention: whether cardinal and ordinal        *)
(* members of one base compete for the same per-form slot (a later member     *)
(* then silently replaces an earlier one).  The property requires FALSE.      *)
EXTENDS PluralsOps

CONSTANTS MemberSets,   \* set of member sets to explore
          SharedSlot

VARIABLES members, baseIsKey,   \* input
          todo,                 \* members not visited yet
          slots,                \* what the grouping map holds
          out                   \* None while grouping, then the result record
vars == <<members, baseIsKey, todo, slots, out>>

Init == members \in MemberSets /\ baseIsKey \in BOOLEAN /\ todo = members /\ slots = {} /\ out = [kind |-> "pending"]

Visit(m) ==
    /\ m \in todo /\ out.kind = "pending"
    /\ todo' = todo \ {m}
    /\ slots' = IF SharedSlot THEN { x \in slots : x.form # m.form } \cup {m} ELSE slots \cup {m}
    /\ UNCHANGED <<members, baseIsKey, out>>

CloseGroup ==
    /\ todo = {} /\ out.kind = "pending"
    /\ out' = IF Cardinality(slots) < 2 \/ ~\E m \in slots : m.form = "other"
              THEN [kind |-> "plain", kept |-> slots]
              ELSE LET oty == (CHOOSE m \in slots : m.form = "other").ty IN
                   IF \E m \in slots : m.ty # oty THEN [kind |-> "error", why |-> "mixed"]
                   ELSE IF baseIsKey THEN [kind |-> "error", why |-> "collision"]
                   ELSE [kind |-> "plural", ty |-> oty, forms |-> { m.form : m \in slots }]
    /\ UNCHANGED <<members, baseIsKey, todo, slots>>

Next == (\E m \in members : Visit(m)) \/ CloseGroup

Conforms ==
    out.kind # "pending" =>
        LET want == Merge(members, baseIsKey) IN
        /\ out.kind = want.kind
        /\ out.kind = "plain" => out.kept = members          \* no member is lost
        /\ out.kind = "plural" => out.ty = want.ty /\ out.forms = want.forms
        /\ out.kind = "error" => out.why = want.why
Termination == <>(out.kind # "pending")
=============================================================================
