----------------------------- MODULE Trace_Ranges -----------------------------
(* Validates, for every range declaration, the accept/reject class and the    *)
(* branch the real parser chose for each literal count against Select.        *)
EXTENDS RangesCases, Json, IOUtils

Rec   == ndJsonDeserialize(IOEnv.TRACE)
Cases == ndJsonDeserialize(IOEnv.CASES)

VARIABLE l

CaseTags(ev) ==
    LET a == Cases[ev.case].abs
        cls == Class(a.branches, a.ty)
        o == ev.load.outcome IN
    IF o \notin {"Ok", "Err"} THEN {"outcome:" \o o}
    ELSE IF cls = "reject" THEN (IF o = "Err" THEN {} ELSE {"must-reject-got-Ok"})
    ELSE IF cls = "may" THEN {}
    ELSE IF o # "Ok" THEN {"must-accept-got-Err"}
    ELSE LET keys == ev.load.units[1].keys IN
         (IF "r" \notin DOMAIN keys \/ keys["r"].t # "value" \/ keys["r"].kind # "interpol"
               \/ "count" \notin DOMAIN keys["r"].vars \/ keys["r"].vars["count"].count # a.ty
          THEN {"range-key-type"} ELSE {})
         \cup UNION { IF CountKey(c) \notin DOMAIN keys THEN {"nokey:" \o CountKey(c)}
                      ELSE IF keys[CountKey(c)].vals["en"] # ExpectCountTree(a.branches, a.ty, c)
                           THEN {"branch:" \o CountKey(c)} ELSE {}
                    : c \in Counts(a.branches, a.ty) }

\* L2: what the generated accessor rendered at run time for range key j of a packed project.
\*   n   : the count as an integer (i8 / u8, every value of the type)     idx : the count as an anchor (other types)
\*   mode "near" (floats): idx is a half-step position, the count is the representable neighbour of an anchor
RenderTags(ev) ==
    LET a == Cases[ev.case].abs.items[ev.j]
        sel == IF ev.mode = "int" THEN SelectInt(a.branches, ev.n, a.ty)
               ELSE IF ev.mode = "near" THEN SelectHalf(a.branches, ev.idx) ELSE Select(a.branches, ev.idx)
        \* mode "near": idx is a half-step position; how Rust displays the count is logged by the driver (ev.shown)
        shown == IF ev.mode = "int" THEN IntSyms(ev.n) ELSE IF ev.mode = "near" THEN ev.shown ELSE Disp[a.ty][ev.idx] IN
    IF ev.outcome # "Ok" THEN {"render-outcome:" \o ev.outcome}
    ELSE IF sel = 0 THEN {}          \* no branch and no fallback: the property is silent (integer ranges may omit the fallback)
    ELSE IF ev.out = BranchTag(a.branches[sel].tag) \o <<"COLON">> \o shown THEN {}
    ELSE {"run-time-branch:" \o ev.flav}

\* many-branch range (MC_ManyBranch): exact branches 1..n, then the fallback
ManyTags(ev) ==
    LET n == Cases[ev.case].abs.n
        want == IF ev.n \in 1..n THEN <<"b">> \o NatSyms(ev.n) ELSE <<"o","t","h","e","r">> IN
    IF ev.outcome # "Ok" THEN {"render-outcome:" \o ev.outcome} ELSE IF ev.out = want THEN {} ELSE {"many-branches:" \o ev.flav}

Tags(ev) == IF ev.ev = "Load" THEN CaseTags(ev)
            ELSE IF ev.ev = "RenderManyBranch" THEN ManyTags(ev)
            ELSE IF ev.ev = "Render" THEN RenderTags(ev)
            ELSE IF ev.ev = "Crash" THEN {"crash:" \o ev.outcome}
            ELSE {}

TraceInit == l = 1
TraceNext ==
    /\ l <= Len(Rec)
    /\ l' = l + 1
    /\ LET tags == Tags(Rec[l]) IN
         tags = {} \/ PrintT(<<"REJECT", ToJson([l |-> l, case |-> Rec[l].case, tags |-> tags])>>)
TraceSpec == TraceInit /\ [][TraceNext]_l

Post == PrintT(<<"SUMMARY", ToJson([events |-> Len(Rec), consumed |-> TLCGet("stats").diameter - 1])>>)
=============================================================================
