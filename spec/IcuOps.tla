------------------------------- MODULE IcuOps -------------------------------
(* C20, the declarative part: which ICU option families a set of uses needs. *)
EXTENDS Common

BaseFeats == {"plural", "number", "date", "time", "datetime", "list", "currency"}
\* composite features: several kinds of use inside one value
\*   range          an integer range (needs no ICU data)
\*   range_number   a range whose branches format the count with `number`
\*   plural_number  a plural whose forms format the count with `number`
\*   plural_currency a plural whose forms format the count with `currency`
\*   plural_date    a plural whose forms format another variable with `date`
\*   number_list    one string, two variables, two formatters
\*   bare           a variable printed as is (needs nothing)
\*   bare_number / bare_date   the same variable printed as is AND through a formatter in one value
MixFeats == {"range", "range_number", "plural_number", "plural_currency", "plural_date", "number_list", "bare", "bare_number", "bare_date"}
Feats  == BaseFeats \cup MixFeats
Wheres == {"t", "g.s", "g.h.u"}
OptionOf(f) == CASE f = "plural" -> "Plurals" [] f = "number" -> "FormatNums" [] f = "list" -> "FormatList"
                 [] f = "currency" -> "FormatCurrency" [] OTHER -> "FormatDateTime"
OptionsOf(f) == CASE f \in {"range", "bare"} -> {}
                  [] f = "bare_number" -> {"FormatNums"}
                  [] f = "bare_date" -> {"FormatDateTime"}
                  [] f = "range_number" -> {"FormatNums"}
                  [] f = "plural_number" -> {"Plurals", "FormatNums"}
                  [] f = "plural_currency" -> {"Plurals", "FormatCurrency"}
                  [] f = "plural_date" -> {"Plurals", "FormatDateTime"}
                  [] f = "number_list" -> {"FormatNums", "FormatList"}
                  [] OTHER -> {OptionOf(f)}

Use(unit, where, loc, feat) == [unit |-> unit, where |-> where, loc |-> loc, feat |-> feat]

\* the property
Needs(uses) == UNION { OptionsOf(u.feat) : u \in uses }

=============================================================================
