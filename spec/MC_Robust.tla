------------------------------ MODULE MC_Robust ------------------------------
(* Emits the adversarial projects of RobustCases (no state machine of its own; *)
(* the model-checked part of C09 is MC_Adversarial).                           *)
EXTENDS RobustCases, Json
CONSTANT Depths          \* [seq |-> lengths, nest |-> nesting depths]
DepthsQuick == [seq |-> <<10, 100, 10000>>, nest |-> <<10, 100, 1000>>]
DepthsThorough == [seq |-> <<10, 100, 1000, 3000, 10000, 30000>>, nest |-> <<10, 100, 1000, 3000, 10000>>]
VARIABLE i
All == Fixed \o SetToSeq(RangeAdversarial) \o SetToSeq(KeyAdversarial) \o SetToSeq(PluralAdversarial) \o SetToSeq(NameAdversarial) \o Cat([d \in 1..Len(Depths.seq) |-> DeepSeq(Depths.seq[d])]) \o Cat([d \in 1..Len(Depths.nest) |-> DeepNest(Depths.nest[d])])
Init == i = 1
Next == i <= Len(All) /\ PrintT(<<"CASE", ToJson(All[i])>>) /\ i' = i + 1
Spec == Init /\ [][Next]_i
=============================================================================
