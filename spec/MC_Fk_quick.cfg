CONSTANTS
  Graphs <- MCGraphs
  PopulateEntersResolved = TRUE
  FullArgs = FALSE
SPECIFICATION MCSpec
INVARIANTS ErrorIffUnresolvable FinalIsSubst EmitCases
PROPERTY Termination
CHECK_DEADLOCK FALSE
