CONSTANTS
  Decls <- MCDecls
  AnchorsUsed = {1, 2, 3, 4, 5, 6}
  MaxAlts = 2
  TwoBranch = TRUE
  EmitTypes = {"i8", "i16", "i32", "i64", "u8", "u16", "u32", "u64", "f32", "f64"}
SPECIFICATION MCSpec
INVARIANTS SelectAgrees FallbackTotal NormalisePreserves EmitCases
PROPERTY Termination
CHECK_DEADLOCK FALSE
