"""C02  Every accessor flavour of a key denotes the same text."""
import json
import os

import vp
import probe
from checks.c05 import plural_oracle

ENV = {"x": "X1"}


def rl(l):
    return "Locale::" + l


def args_for(c, view):
    out = []
    for v in sorted(c["vars"]):
        out.append('%s = "%s"' % (v, ENV[v]))
    for k in sorted(c["comps"]):
        out.append("<%s> = %s" % (k, ("<%s/>" % k) if view else ('"%s"' % k)))
    if c["kind"] == "ranges":
        lit = vp.text_of(c["count"]["sym"]) + "u8"
        out.append("count = %s" % (("move || " + lit) if view else lit))
    elif c["kind"] == "plurals":
        lit = c["count"]["tok"] + "u32"
        out.append("count = %s" % (("move || " + lit) if view else lit))
    return "".join(", " + a for a in out)


CTXGET = "CTX.with(|c| c.get()).unwrap()"


def flavours(c, dyn=False):
    """(flavour name, rust expression producing a String) for one access.
    dyn: the dynamic_load build, where the string / display macros return futures"""
    out = _flavours(c)
    if not dyn:
        return out
    import re
    res = []
    for name, expr in out:
        if name == "const_chain":
            continue
        # <macro>!(...).to_string()  ->  block_on(<macro>!(...)).to_string()   for the string / display macros
        expr = re.sub(r"((?:td|tu|t)_(?:string|display))!\((.*?)\)\.to_string\(\)", r"futures::executor::block_on(\1!(\2)).to_string()", expr)
        res.append((name, expr))
    return res


def _flavours(c):
    L = rl(c["locale"])
    rest = c["rest"]
    scope = c["scope"]
    sa, va = args_for(c, False), args_for(c, True)
    out = []
    if scope == "":
        for m in ("td_string", "td_display"):
            out.append((m, "%s!(%s, %s%s).to_string()" % (m, L, rest, sa)))
        out.append(("td", "render(td!(%s, %s%s))" % (L, rest, va)))
        for m in ("t_string", "tu_string", "t_display", "tu_display"):
            out.append((m, "{ let c = %s; c.set_locale(%s); %s!(c, %s%s).to_string() }" % (CTXGET, L, m, rest, sa)))
        for m in ("t", "tu"):
            out.append((m, "{ let c = %s; c.set_locale(%s); render(%s!(c, %s%s)) }" % (CTXGET, L, m, rest, va)))
        if c["kind"] == "lit" and "." not in rest:
            out.append(("const_chain", "%s.get_keys_const().%s().inner().to_string()" % (L, rest)))
        # a scoped context obtained from the provided context, scoped to nothing more than the root is the plain use_i18n
        out.append(("use_i18n+t_string", "{ %s.set_locale(%s); let c = use_i18n(); t_string!(c, %s%s).to_string() }" % (CTXGET, L, rest, sa)))
    else:
        ways = [("scope_locale(%s)" % scope, "scope_locale!(%s, %s)" % (L, scope))]
        cways = [("scope_i18n(%s)" % scope, "scope_i18n!(c, %s)" % scope),
                 ("use_i18n_scoped(%s)" % scope, "use_i18n_scoped!(%s)" % scope)]
        if scope == "g.h":
            ways.append(("scope_locale(g)+scope_locale(h)", "scope_locale!(scope_locale!(%s, g), h)" % L))
            cways.append(("scope_i18n(g)+scope_i18n(h)", "scope_i18n!(scope_i18n!(c, g), h)"))
        for wn, we in ways:
            for m in ("td_string", "td_display"):
                out.append(("%s+%s" % (wn, m), "{ let sl = %s; %s!(sl, %s%s).to_string() }" % (we, m, rest, sa)))
            out.append(("%s+td" % wn, "{ let sl = %s; render(td!(sl, %s%s)) }" % (we, rest, va)))
        for wn, we in cways:
            for m in ("t_string", "tu_string", "t_display"):
                out.append(("%s+%s" % (wn, m), "{ let c = %s; c.set_locale(%s); let sc = %s; %s!(sc, %s%s).to_string() }" % (CTXGET, L, we, m, rest, sa)))
            out.append(("%s+t" % wn, "{ let c = %s; c.set_locale(%s); let sc = %s; render(t!(sc, %s%s)) }" % (CTXGET, L, we, rest, va)))
    return out


def check(run):
    oracle = plural_oracle(run, ["en", "fr", "de"], ["0", "1", "2", "5"])
    res = vp.tlc("Access", "MC_Access.cfg", run.workdir, workers=1, env={"ORACLE": oracle})
    vp.tlc_ok(res, "Access")
    run.add_mc("Access (scoping machine + access matrix)", res)
    project = json.loads(res["tagged"]["PROJECT"][0])
    accesses = [json.loads(c) for c in sorted(set(res["tagged"]["CASE"]))]
    wd = os.path.join(run.workdir, "l2")
    os.makedirs(wd, exist_ok=True)
    trace, calls, meta = [], [], {}
    # two builds of the same project: translations baked in, and dynamic_load + ssr (string / display macros are futures there)
    from checks.c17 import EMB_FEATURES
    for build, feats in (("baked", None), ("dynamic_load", EMB_FEATURES + ['"interpolate_display"'])):
        bcalls, bmeta = [], {}
        for a in accesses:
            for name, expr in flavours(a, dyn=(build == "dynamic_load")):
                cid = len(bcalls) + 1
                bcalls.append({"id": cid, "flav": "raw", "rust": expr})
                bmeta[cid] = (a, name if build == "baked" else "dynamic_load:" + name)
        pname = "c02probe" if build == "baked" else "c02dyn"
        p = {"name": pname, "cfg": project["cfg"], "files": project["files"], "calls": bcalls, "needs_ctx": True, "extra_items": ""}
        # the context must also be *provided* for use_i18n / use_i18n_scoped!
        p["main"] = probe.main_source(p).replace("CTX.with(|c| c.set(Some(ctx)));", "CTX.with(|c| c.set(Some(ctx)));\n    provide_context(ctx);")
        saved = probe.FEATURES
        if feats:
            probe.FEATURES = feats
        try:
            results, log = probe.build_and_run(run, [p], tag="_c02" + ("" if build == "baked" else "dyn"))
        finally:
            probe.FEATURES = saved
        r = results[pname]
        if not r["built"]:
            run.violation("build;" + build, "the probe calling every flavour with exactly the required arguments does not compile (%s build)" % build,
                          {"build_log": r["build_log"] or log[-3000:]})
            return run.finish("probe build failed")
        n0 = len(trace)
        for ev in r["events"]:
            a, name = bmeta[ev["call"]]
            trace.append({"ev": "Access", "flavour": name, "locale": a["locale"], "path": a["path"], "scope": a["scope"],
                          "env": {k: probe.to_syms(v) for k, v in ENV.items()}, "count": a["count"],
                          "outcome": ev["outcome"], "out": probe.to_syms(ev["out"])})
        if len(trace) - n0 != len(bcalls):
            raise vp.ToolError("probe %s printed %d of %d results: %s" % (pname, len(trace) - n0, len(bcalls), r.get("stderr", "")[-300:]))
        calls += bcalls
        meta.update({len(meta) + k: v for k, v in bmeta.items()})
    trace.append({"ev": "End"})
    tpath = os.path.join(wd, "trace.ndjson")
    vp.write_ndjson(tpath, trace)
    cpath = os.path.join(wd, "cases.ndjson")
    vp.write_ndjson(cpath, [{"id": 1}])
    summary, rejects, _ = vp.trace_validate("Trace_Access", "Trace_Access.cfg", wd, tpath, cpath, env={"ORACLE": oracle})
    if summary["consumed"] != summary["events"]:
        raise vp.ToolError("trace spec consumed %s of %s events" % (summary["consumed"], summary["events"]))
    run.traces += 1
    run.events += summary["events"]
    run.cases += len(accesses)
    for rj in rejects:
        ev = trace[rj["l"] - 1]
        run.violation("%s;%s;%s;count=%s" % (ev["flavour"], ev["locale"], ev["path"], ev["count"]["tok"] or ev["count"]["idx"]),
                      "flavour %s renders %r" % (ev["flavour"], vp.text_of(ev["out"])), {"event": ev})
    names = sorted({n for a, n in meta.values()})
    run.samples = [{"access": accesses[10], "flavours": [n for n, _ in flavours(accesses[10])]}]
    run.exhaustive = True
    run.notes["accesses"] = len(accesses)
    run.notes["flavours"] = names
    run.assumptions = ["one project with keys of every kind (5 literal types, interpolation, components incl. nesting, u8 range, cardinal and ordinal plural, subkeys 3 deep), "
                       "3 locales, one of which leaves keys null (fallback to the default)",
                       "every split of the key path into scope prefix + rest, scoping chained and direct, for scope_locale!, scope_i18n!, use_i18n_scoped!",
                       "the same calls are made in a second build with dynamic_load + ssr, where the string / display macros return futures (driven with block_on); the const accessor chain does not exist there"]
    return run.finish("every (locale, key, count) x every flavour x every scoping; non-trivial: every call", {"distinct_nontrivial": len(calls)})


def replay(run, path):
    raise vp.ToolError("replay: re-run `bin/check C02`; flavour, locale, key and count are in the replay file")
