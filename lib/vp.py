"""Shared machinery of /verif/bin/check.

  spec (TLA+) --TLC--> CASE lines --materialise--> directories / inputs
  real crates (drivers under /verif/harness, path deps on /repo) --> trace.ndjson
  trace.ndjson + cases.ndjson --TLC Trace_*--> REJECT lines --> replay files / verdict

The oracle is always the TLA+ specification evaluated by TLC; nothing in this file knows an
expected value.  Exit codes of a check: 0 held, 1 violation (with VIOLATION line), 2 tool error.
"""
import hashlib
import json
import os
import random
import re
import shutil
import subprocess
import sys
import time

ROOT = os.path.dirname(os.path.dirname(os.path.abspath(__file__)))
SPEC = os.path.join(ROOT, "spec")
HARNESS = os.path.join(ROOT, "harness")
WORK = os.path.join(ROOT, "work")
EVID = os.path.join(ROOT, "evidence")
REPO = os.environ.get("VERIF_REPO", "/repo")
LEX = json.load(open(os.path.join(SPEC, "lexemes.json")))
NPROC = os.cpu_count() or 4


class ToolError(Exception):
    pass


class ProjectRejected(Exception):
    """A driver's own project - a valid configuration with valid translation files, part of the harness - was refused by the
    library's macro while the driver was being built.  That is an observation about the library (a valid project must load),
    not a failure of the tool: bin/check reports it as a violation of the property being checked."""
    def __init__(self, package, msg, log):
        Exception.__init__(self, "%s: %s" % (package, msg))
        self.package, self.msg, self.log = package, msg, log


def macro_rejection(build_log):
    """the message of an error raised by load_locales!() / declare_locales!() itself (a plain `error:` without a compiler code,
    pointing at the macro call), or None"""
    m = re.search(r"^error: ([^\n]+)\n\s+--> [^\n]+\n[^\n]*\n[^\n]*(?:load_locales|declare_locales)!", build_log, re.M)
    return m.group(1).strip() if m else None


def log(*a):
    print("[check]", *a, file=sys.stderr, flush=True)


# --------------------------------------------------------------------------------------
# TLC
# --------------------------------------------------------------------------------------
def _unescape_tla(s):
    out = []
    i = 0
    while i < len(s):
        c = s[i]
        if c == "\\" and i + 1 < len(s):
            n = s[i + 1]
            out.append({"n": "\n", "t": "\t", "r": "\r", "f": "\f"}.get(n, n))
            i += 2
        else:
            out.append(c)
            i += 1
    return "".join(out)


_TAGGED = re.compile(r'^<<"([A-Z_]+)", "(.*)">>\s*$')


def tlc(module, cfg, workdir, workers=None, env=None, timeout=1800, simulate=None, extra=None,
        jvm=None, coverage=False):
    """Runs TLC on spec/<module>.tla with spec/<cfg>.  Returns dict(rc, out, tagged, stats)."""
    os.makedirs(workdir, exist_ok=True)
    md = os.path.join(workdir, "tlc_meta_" + module + "_" + os.path.splitext(os.path.basename(cfg))[0])
    shutil.rmtree(md, ignore_errors=True)
    cmd = ["java", "-XX:+UseParallelGC"] + (jvm or ["-Xss512m", "-Xmx8g"]) + [
        "-cp", "/opt/veriftools/tla/tla2tools.jar:/opt/veriftools/tla/CommunityModules-deps.jar",
        "tlc2.TLC", "-workers", str(workers or min(NPROC, 8)), "-metadir", md, "-cleanup",
        "-noGenerateSpecTE", "-config", os.path.join(SPEC, cfg)]
    if coverage:
        cmd += ["-coverage", "1"]
    if simulate:
        cmd += ["-simulate", simulate]
    if extra:
        cmd += extra
    cmd.append(os.path.join(SPEC, module + ".tla"))
    e = dict(os.environ)
    if env:
        e.update({k: str(v) for k, v in env.items()})
    t0 = time.time()
    try:
        p = subprocess.run(cmd, cwd=SPEC, env=e, stdout=subprocess.PIPE, stderr=subprocess.STDOUT,
                           timeout=timeout, text=True, errors="replace")
    except subprocess.TimeoutExpired as ex:
        if simulate:
            out = ex.stdout if isinstance(ex.stdout, str) else (ex.stdout or b"").decode("utf8", "replace")
            return _tlc_result(124, out, time.time() - t0)
        raise ToolError("TLC timeout on %s/%s" % (module, cfg))
    finally:
        shutil.rmtree(md, ignore_errors=True)
    return _tlc_result(p.returncode, p.stdout, time.time() - t0)


def _tlc_result(rc, out, wall):
    tagged = {}
    for line in out.splitlines():
        m = _TAGGED.match(line)
        if m:
            tagged.setdefault(m.group(1), []).append(_unescape_tla(m.group(2)))
    stats = {"generated": 0, "distinct": 0, "depth": 0, "wall_s": round(wall, 2)}
    m = re.search(r"(\d[\d,]*) states generated, (\d[\d,]*) distinct states found", out)
    if m:
        stats["generated"] = int(m.group(1).replace(",", ""))
        stats["distinct"] = int(m.group(2).replace(",", ""))
    else:
        m = re.search(r"(\d[\d,]*) states checked", out)
        if m:
            stats["generated"] = stats["distinct"] = int(m.group(1).replace(",", ""))
    m = re.search(r"depth of the complete state graph search is (\d+)", out)
    if m:
        stats["depth"] = int(m.group(1))
    violated = None
    m = re.search(r"Error: Invariant (\S+) is violated", out)
    if m:
        violated = m.group(1)
    elif "Temporal properties were violated" in out:
        violated = "temporal"
    elif re.search(r"Error: .*(evaluat|exception|Attempted|not enumerable|StackOverflow|overflow)", out):
        violated = "eval-error"
    elif "Error:" in out and "Model checking completed. No error" not in out and rc != 0:
        violated = "error"
    return {"rc": rc, "out": out, "tagged": tagged, "stats": stats, "violated": violated}


def tlc_ok(res, what):
    if res["violated"] or (res["rc"] not in (0,) and "No error has been found" not in res["out"]):
        tail = "\n".join(res["out"].splitlines()[-60:])
        raise ToolError("TLC reported a problem in %s (%s):\n%s" % (what, res["violated"], tail))


def coverage_zero_actions(out, actions):
    """Names of `actions` whose coverage count is 0 (vacuity guard)."""
    zero = []
    for a in actions:
        m = re.search(r"<%s line .*?>: (\d+):(\d+)" % re.escape(a), out)
        if m and int(m.group(2)) == 0:
            zero.append(a)
    return zero


# --------------------------------------------------------------------------------------
# materialising generic file trees
# --------------------------------------------------------------------------------------
def text_of(syms):
    out = []
    for s in syms:
        if s in LEX:
            out.append(LEX[s])
        elif s.startswith("U+"):
            out.append(chr(int(s[2:], 16)))
        else:
            raise ToolError("unknown symbol %r" % s)
    return "".join(out)


def _entries(node, rng):
    e = list(node["e"])
    if rng is not None:
        rng.shuffle(e)
    return e


# numbers that only some formats can spell (a format that cannot writes something its reader refuses)
SPECIAL = {"json": {"inf": "1e999", "neginf": "-1e999", "nan": "NaN"},
           "json5": {"inf": "Infinity", "neginf": "-Infinity", "nan": "NaN"},
           "yaml": {"inf": ".inf", "neginf": "-.inf", "nan": ".nan"}}


def node_json(node, rng=None, indent=0):
    t = node["t"]
    if t == "str":
        return json.dumps(text_of(node["s"]), ensure_ascii=False)
    if t == "raw":
        return node["v"]
    if t == "rawsym":
        return text_of(node["s"])
    if t == "special":
        return SPECIAL["json"][node["v"]]
    if t == "seq":
        return "[" + ", ".join(node_json(x, rng, indent + 1) for x in node["e"]) + "]"
    if t == "map":
        pad = "  " * (indent + 1)
        items = [pad + json.dumps(k, ensure_ascii=False) + ": " + node_json(v, rng, indent + 1) for k, v in _entries(node, rng)]
        if not items:
            return "{}"
        return "{\n" + ",\n".join(items) + "\n" + "  " * indent + "}"
    raise ToolError("bad node %r" % (node,))


_J5_IDENT = re.compile(r"^[A-Za-z_$][A-Za-z0-9_$]*$")


def _json5_str(s):
    # single-quoted JSON5 string
    body = json.dumps(s, ensure_ascii=False)[1:-1].replace('\\"', '"').replace("'", "\\'")
    return "'" + body + "'"


def node_json5(node, rng=None, indent=0):
    t = node["t"]
    if t == "str":
        return _json5_str(text_of(node["s"]))
    if t == "raw":
        return node["v"]
    if t == "rawsym":
        return text_of(node["s"])
    if t == "special":
        return SPECIAL["json5"][node["v"]]
    if t == "seq":
        return "[" + ", ".join(node_json5(x, rng, indent + 1) for x in node["e"]) + ",]" if node["e"] else "[]"
    if t == "map":
        pad = "  " * (indent + 1)
        items = []
        for k, v in _entries(node, rng):
            kk = k if _J5_IDENT.match(k) else _json5_str(k)
            items.append(pad + kk + ": " + node_json5(v, rng, indent + 1) + ",")
        if not items:
            return "{}"
        return "{\n" + "\n".join(items) + "\n" + "  " * indent + "}"
    raise ToolError("bad node %r" % (node,))


def node_yaml(node, rng=None, indent=0):
    """Block style for maps, flow style for sequences, double-quoted scalars."""
    t = node["t"]
    if t == "str":
        return json.dumps(text_of(node["s"]), ensure_ascii=False).replace("\u2028", "\\L").replace("\u00a0", "\\_")
    if t == "raw":
        return node["v"]
    if t == "rawsym":
        return text_of(node["s"])
    if t == "special":
        return SPECIAL["yaml"][node["v"]]
    if t == "seq":
        return "[" + ", ".join(_yaml_flow(x) for x in node["e"]) + "]"
    if t == "map":
        if not node["e"]:
            return "{}"
        pad = "  " * indent
        lines = []
        for k, v in _entries(node, rng):
            kk = json.dumps(k, ensure_ascii=False)
            if v["t"] == "map" and v["e"]:
                lines.append(pad + kk + ":\n" + node_yaml(v, rng, indent + 1))
            else:
                lines.append(pad + kk + ": " + node_yaml(v, rng, indent + 1))
        return "\n".join(lines)
    raise ToolError("bad node %r" % (node,))


def _yaml_flow(node):
    t = node["t"]
    if t == "map":
        return "{" + ", ".join(json.dumps(k, ensure_ascii=False) + ": " + _yaml_flow(v) for k, v in node["e"]) + "}"
    if t == "seq":
        return "[" + ", ".join(_yaml_flow(x) for x in node["e"]) + "]"
    return node_yaml(node)


_YAML_PLAIN = re.compile(r"^[a-z]+( [a-z]+)*$")
_YAML_RESERVED = {"yes", "no", "true", "false", "null", "on", "off", "y", "n"}


def _yaml2_scalar(text):
    """idiomatic YAML: a plain scalar when that cannot be mistaken for anything else, single quotes when the text has no line
    break or control character, double quotes otherwise"""
    if _YAML_PLAIN.match(text) and text not in _YAML_RESERVED:
        return text
    if all(c >= " " and c not in "\u0085\u2028\u2029\ufeff" for c in text) and text == text.strip(" "):
        return "'" + text.replace("'", "''") + "'"
    return json.dumps(text, ensure_ascii=False).replace("\u2028", "\\L").replace("\u00a0", "\\_")


def node_yaml2(node, rng=None, indent=0):
    """Block style for maps AND sequences, plain / single-quoted scalars where possible (the way people write YAML by hand)."""
    t = node["t"]
    pad = "  " * indent
    if t == "str":
        return _yaml2_scalar(text_of(node["s"]))
    if t in ("raw", "rawsym", "special"):
        return node_yaml(node)
    if t == "seq":
        if not node["e"]:
            return "[]"
        lines = []
        for x in node["e"]:
            if x["t"] in ("map", "seq") and x["e"]:
                inner = node_yaml2(x, rng, indent + 1)
                # the first line of a nested block goes on the dash line
                lines.append(pad + "- " + inner[len("  " * (indent + 1)):])
            else:
                lines.append(pad + "- " + node_yaml2(x, rng, indent + 1))
        return "\n".join(lines)
    if t == "map":
        if not node["e"]:
            return "{}"
        lines = []
        for k, v in _entries(node, rng):
            kk = k if _YAML_PLAIN.match(k) and k not in _YAML_RESERVED else json.dumps(k, ensure_ascii=False)
            if v["t"] in ("map", "seq") and v["e"]:
                lines.append(pad + kk + ":\n" + node_yaml2(v, rng, indent + 1))
            else:
                lines.append(pad + kk + ": " + node_yaml2(v, rng, indent + 1))
        return "\n".join(lines)
    raise ToolError("bad node %r" % (node,))


FORMATS = {"json": (node_json, "json"), "json5": (node_json5, "json5"), "yaml": (node_yaml, "yaml"), "yaml2": (node_yaml2, "yaml")}


def toml_value(v):
    if isinstance(v, str):
        return json.dumps(v)
    if isinstance(v, bool):
        return "true" if v else "false"
    if isinstance(v, int):
        return str(v)
    if isinstance(v, list):
        if v and all(isinstance(x, list) and len(x) == 2 and isinstance(x[0], str) for x in v) and False:
            pass
        return "[" + ", ".join(toml_value(x) for x in v) + "]"
    if isinstance(v, dict):
        return "{ " + ", ".join(json.dumps(k) + " = " + toml_value(x) for k, x in v.items()) + " }"
    raise ToolError("bad toml value %r" % (v,))


PRE_PLAIN = '[package]\nname = "case"\nversion = "0.1.0"\nedition = "2021"\n\n'
PRE_DECOY = PRE_PLAIN + '[package.metadata.other]\ndefault = "zz"\nlocales = ["zz"]\n\n'
PRE_COMMENTED = PRE_PLAIN + '# [package.metadata.leptos-i18n]\n# default = "zz"\n# locales = ["zz"]\n\n'
PRE_MENTION = PRE_PLAIN.replace('edition', 'description = "configured in [package.metadata.leptos-i18n] below"\nedition')
POST_DEPS = '\n[dependencies]\nserde = "1"\n\n[features]\ndefault = []\n'


def _tagged_toml(v):
    if "str" in v:
        return json.dumps(v["str"])
    if "list" in v:
        return "[" + ", ".join(json.dumps(x) for x in v["list"]) + "]"
    if "pairs" in v:
        return "{ " + ", ".join(json.dumps(k) + " = " + json.dumps(x) for k, x in v["pairs"]) + " }"
    raise ToolError("bad tagged toml value %r" % (v,))


def manifest_text(cfg):
    """cfg: either the simple form {default, locales, namespaces?, inherits?: [[k,v]..], dir?}
    or the raw form {raw: true, section, fields: [[name, tagged value]..], pre, post} of the Config spec."""
    if cfg.get("raw"):
        pre, hdr = cfg.get("pre"), cfg.get("hdr", "plain")
        parts = [{"decoy": PRE_DECOY, "commented": PRE_COMMENTED, "mention": PRE_MENTION}.get(pre, PRE_PLAIN)]
        fields = list(cfg["fields"])
        later = []
        if not cfg.get("section", True):
            parts.append("[package.metadata.not-leptos-i18n]\n")
        elif hdr == "inline":
            parts.append("[package.metadata]\nleptos-i18n = { " + ", ".join(name + " = " + _tagged_toml(v) for name, v in fields) + " }\n")
            fields = []
        else:
            parts.append({"spaces": "[ package . metadata . leptos-i18n ]\n", "quoted": '[package.metadata."leptos-i18n"]\n'}
                         .get(hdr, "[package.metadata.leptos-i18n]\n"))
            if hdr == "subtable":
                later = [(n, v) for n, v in fields if "pairs" in v]
                fields = [(n, v) for n, v in fields if "pairs" not in v]
        parts += [name + " = " + _tagged_toml(v) + "\n" for name, v in fields]
        for name, v in later:
            parts.append("\n[package.metadata.leptos-i18n.%s]\n" % name)
            parts += ["%s = %s\n" % (k if k.isalnum() else json.dumps(k), json.dumps(x)) for k, x in v["pairs"]]
        if cfg.get("post") == "deps":
            parts.append(POST_DEPS)
        return "".join(parts)
    lines = ['[package]', 'name = "case"', 'version = "0.1.0"', 'edition = "2021"', '',
             '[package.metadata.leptos-i18n]',
             'default = ' + toml_value(cfg["default"]),
             'locales = ' + toml_value(list(cfg["locales"]))]
    ns = cfg.get("namespaces")
    if ns and ns != "none":
        lines.append('namespaces = ' + toml_value(list(ns)))
    if cfg.get("dir") and cfg["dir"] != "none":
        lines.append('locales-dir = ' + toml_value(cfg["dir"]))
    inh = cfg.get("inherits")
    if inh:
        lines.append('inherits = ' + toml_value({k: v for k, v in inh}))
    return "\n".join(lines) + "\n"


def materialise(case, dirpath, fmt="json", perm_seed=None, ext=None, decoy_ext=None):
    """Writes Cargo.toml and the locale files of `case` under dirpath (decoy_ext: next to every file an unparsable one with that
    extension - a format with two extensions must read the first one only)."""
    shutil.rmtree(dirpath, ignore_errors=True)
    os.makedirs(dirpath)
    with open(os.path.join(dirpath, "Cargo.toml"), "w", encoding="utf8") as f:
        f.write(manifest_text(case["cfg"]))
    writer, default_ext = FORMATS[fmt]
    ext = ext or default_ext
    ldir = case["cfg"].get("dir") if not case["cfg"].get("raw") else case.get("dir")
    if not ldir or ldir == "none":
        ldir = "locales"
    rng = random.Random(perm_seed) if perm_seed is not None else None
    for entry in case.get("files", []):
        rel, node = entry[0], entry[1]   # rel: "en" or "en/ns"
        p = os.path.join(dirpath, ldir, rel + "." + (entry[2] if len(entry) > 2 else ext))
        os.makedirs(os.path.dirname(p), exist_ok=True)
        with open(p, "w", encoding="utf8") as f:
            f.write(writer(node, rng) + "\n")
        if decoy_ext and len(entry) <= 2:
            with open(os.path.join(dirpath, ldir, rel + "." + decoy_ext), "w", encoding="utf8") as f:
                f.write("{{{ : not a translation file\n")


# --------------------------------------------------------------------------------------
# building and running drivers
# --------------------------------------------------------------------------------------
_built = set()


def cargo_build(package, features=(), bin_name=None, variant=None, timeout=3000, no_default=False):
    """Builds a driver from /repo's current working tree; returns the path of a private copy
    of the binary (so that several feature variants can coexist)."""
    key = (package, tuple(features), variant)
    bin_name = bin_name or package
    dst_dir = os.path.join(WORK, "bin")
    os.makedirs(dst_dir, exist_ok=True)
    dst = os.path.join(dst_dir, bin_name + ("-" + variant if variant else ""))
    if key in _built:
        return dst
    lock = os.path.join(HARNESS, "Cargo.lock")
    if not os.path.exists(lock):
        shutil.copy(os.path.join(REPO, "Cargo.lock"), lock)
    cmd = ["cargo", "build", "--offline", "-p", package]
    if no_default:
        cmd += ["--no-default-features"]
    if features:
        cmd += ["--features", ",".join(features)]
    env = dict(os.environ)
    env["CARGO_NET_OFFLINE"] = "true"
    t0 = time.time()
    p = subprocess.run(cmd, cwd=HARNESS, env=env, stdout=subprocess.PIPE, stderr=subprocess.STDOUT,
                       text=True, errors="replace", timeout=timeout)
    if p.returncode != 0:
        msg = macro_rejection(p.stdout)
        if msg:
            raise ProjectRejected(package, msg, p.stdout[-4000:])
        raise ToolError("cargo build failed for %s %s:\n%s" % (package, features, p.stdout[-6000:]))
    src = os.path.join(HARNESS, "target", "debug", bin_name)
    shutil.copy2(src, dst)
    _built.add(key)
    log("built %s%s in %.1fs" % (package, "[" + ",".join(features) + "]" if features else "", time.time() - t0))
    return dst


def run_driver(binary, cases_path, out_path, n_cases, per_case_timeout=20, extra_args=(), env=None):
    """Runs a driver over cases_path.  A driver flushes a Begin marker before each case; if the
    process dies or stalls, the case it was working on is recorded as Abort/Timeout (that is
    data, not a tool failure) and the driver is restarted after it."""
    if os.path.exists(out_path):
        os.remove(out_path)
    skip = 0
    e = dict(os.environ)
    e["VERIF_LEX"] = os.path.join(SPEC, "lexemes.json")
    if env:
        e.update(env)
    crashes = []
    while skip < n_cases:
        cmd = [binary, "--cases", cases_path, "--out", out_path, "--skip", str(skip)] + list(extra_args)
        p = subprocess.Popen(cmd, env=e, stdout=subprocess.DEVNULL, stderr=subprocess.PIPE)
        outcome = None
        last_size = -1
        last_change = time.time()
        while True:
            try:
                p.wait(timeout=1.0)
                break
            except subprocess.TimeoutExpired:
                sz = os.path.getsize(out_path) if os.path.exists(out_path) else 0
                if sz != last_size:
                    last_size = sz
                    last_change = time.time()
                # (after three stalls in one replay the code under test is known to hang - each one is reported - and the watchdog
                #  stops being generous, so that a check of a hanging tree ends in minutes rather than in an hour)
                elif time.time() - last_change > (per_case_timeout if len([c for c in crashes if c["outcome"] == "Timeout"]) < 3 else max(5.0, per_case_timeout / 4.0)):
                    p.kill()
                    p.wait()
                    outcome = "Timeout"
                    break
        err = (p.stderr.read() or b"").decode("utf8", "replace")[-2000:]
        if outcome is None and p.returncode == 0:
            return crashes
        if outcome is None:
            outcome = "Abort"
        # find the case that was being processed
        last_begin = None
        done_after = False
        with open(out_path, encoding="utf8") as f:
            lines = f.read().splitlines()
        # drop a possibly half-written last line
        good = []
        for ln in lines:
            try:
                good.append(json.loads(ln))
            except Exception:
                break
        for ev in good:
            if ev.get("ev") == "Begin":
                last_begin = ev
                done_after = False
            elif ev.get("ev") not in ("End",):
                done_after = True
        if last_begin is None:
            raise ToolError("driver %s died before the first case (rc=%s): %s" % (binary, p.returncode, err))
        with open(out_path, "w", encoding="utf8") as f:
            for ev in good:
                f.write(json.dumps(ev) + "\n")
            if not done_after:
                crash = {"ev": "Crash", "case": last_begin["case"], "outcome": outcome,
                         "signal": -p.returncode if (p.returncode or 0) < 0 else 0, "stderr": err[-400:]}
                f.write(json.dumps(crash) + "\n")
                crashes.append(crash)
        skip = last_begin["n"] + 1
    with open(out_path, "a", encoding="utf8") as f:
        f.write(json.dumps({"ev": "End"}) + "\n")
    return crashes


def read_ndjson(path):
    out = []
    with open(path, encoding="utf8") as f:
        for ln in f:
            ln = ln.strip()
            if ln:
                out.append(json.loads(ln))
    return out


def write_ndjson(path, rows):
    os.makedirs(os.path.dirname(path), exist_ok=True)
    with open(path, "w", encoding="utf8") as f:
        for r in rows:
            f.write(json.dumps(r, ensure_ascii=True) + "\n")


# --------------------------------------------------------------------------------------
# trace validation
# --------------------------------------------------------------------------------------
def trace_validate(module, cfg, workdir, trace_path, cases_path, env=None, timeout=1800):
    """Runs the trace specification.  The spec prints <<"REJECT", json>> per rejected event and
    one <<"SUMMARY", json>> from its POSTCONDITION; anything else is a tool error."""
    e = {"TRACE": trace_path, "CASES": cases_path,
         "JAVA_TOOL_OPTIONS": "-Dtlc2.tool.queue.IStateQueue=StateDeque"}
    if env:
        e.update(env)
    res = tlc(module, cfg, workdir, workers=1, env=e, timeout=timeout, jvm=["-Xss1g", "-Xmx6g"])
    summ = res["tagged"].get("SUMMARY")
    if not summ or res["violated"]:
        out = res["out"]
        # The trace specification could not be EVALUATED on some event: the implementation produced an observation of a shape the
        # specification has no meaning for (a function applied outside its domain, a missing field ...).  On the unchanged tree
        # this never happens; when it does, the event is one the specification cannot explain - a rejection of that event, not a
        # failure of the tool.  (Parse errors, time-outs and memory exhaustion remain tool errors.)
        if "The error occurred when TLC was evaluating" in out and not re.search(r"StackOverflow|OutOfMemory|Java heap|Parsing or semantic", out):
            ls = re.findall(r"^l = (\d+)\s*$", out, re.M)
            if ls:
                n = int(ls[-1])
                events = read_ndjson(trace_path)
                if 1 <= n <= len(events):
                    ev = events[n - 1]
                    m = re.search(r"error in the spec or model\.\s*(.*?)\nError: The behavior up to this point", out, re.S)
                    msgs = [m.group(1).strip()[:1500]] if m else [x.strip() for x in re.findall(r"^Error: (.*)$", out, re.M)][:3]
                    rejects = [json.loads(x) for x in res["tagged"].get("REJECT", [])]
                    rejects.append({"l": n, "case": ev.get("case"), "tags": ["spec-cannot-explain-event"], "tlc": msgs})
                    print("[check] %s: the specification could not be evaluated on event %d; reported as a rejection of that event "
                          "(the rest of this trace was not examined)" % (module, n))
                    return {"events": len(events), "consumed": len(events), "aborted_at": n}, rejects, res
        tail = "\n".join(out.splitlines()[-60:])
        raise ToolError("trace validation %s did not complete:\n%s" % (module, tail))
    summary = json.loads(summ[-1])
    rejects = [json.loads(x) for x in res["tagged"].get("REJECT", [])]
    return summary, rejects, res


# --------------------------------------------------------------------------------------
# findings, evidence, verdict
# --------------------------------------------------------------------------------------
def load_known():
    p = os.path.join(ROOT, "known_findings.json")
    if not os.path.exists(p):
        return {"known": [], "fixed": []}
    return json.load(open(p))


def fingerprint(obj):
    return hashlib.sha256(json.dumps(obj, sort_keys=True).encode()).hexdigest()[:16]


class SubRun:
    def __init__(self, parent):
        self.pid, self.tier, self.seed, self.workdir = parent.pid, parent.tier, parent.seed, parent.workdir
        self.traces = self.events = self.cases = 0
        self.violations = []
        self.mc = []

    def violation(self, key, what, replay):
        self.violations.append((key, what, replay))

    def add_mc(self, name, res):
        self.mc.append((name, res))


class Run:
    """Bookkeeping for one check run of one property."""

    def __init__(self, pid, tier, seed):
        self.pid, self.tier, self.seed = pid, tier, seed
        self.t0 = time.time()
        self.workdir = os.path.join(WORK, pid)
        os.makedirs(self.workdir, exist_ok=True)
        shutil.rmtree(os.path.join(self.workdir, "violations"), ignore_errors=True)
        self.states = 0
        self.transitions = 0
        self.traces = 0
        self.events = 0
        self.cases = 0
        self.samples = []
        self.violations = []      # (key, replay dict)
        self.notes = {}
        self.assumptions = []
        self.mc_runs = []
        self.exhaustive = None

    def add_mc(self, name, res):
        self.states += res["stats"]["distinct"]
        self.transitions += res["stats"]["generated"]
        self.mc_runs.append({"model": name, "distinct_states": res["stats"]["distinct"],
                             "states_generated": res["stats"]["generated"], "depth": res["stats"]["depth"],
                             "wall_s": res["stats"]["wall_s"]})

    def violation(self, key, what, replay):
        self.violations.append((key, what, replay))

    def sub(self):
        """an accumulator with the same surface for work done in a worker thread; merge() it back in a fixed order"""
        return SubRun(self)

    def merge(self, sub):
        self.traces += sub.traces
        self.events += sub.events
        self.cases += sub.cases
        self.violations += sub.violations
        for name, res in sub.mc:
            self.add_mc(name, res)

    def finish(self, rule, extra=None):
        known = load_known()
        kn = {k["key"]: k for k in known.get("known", []) if k.get("property") == self.pid}
        printed = set()
        new = []
        for key, what, replay in self.violations:
            if key in kn:
                if key not in printed:
                    print("KNOWN-FINDING: property=%s %s" % (self.pid, kn[key].get("what", what)))
                    printed.add(key)
            else:
                new.append((key, what, replay))
        vdir = os.path.join(self.workdir, "violations")
        lines = []
        for i, (key, what, replay) in enumerate(new):
            os.makedirs(vdir, exist_ok=True)
            path = os.path.join(vdir, "%03d.json" % i)
            if i < 200:
                with open(path, "w", encoding="utf8") as f:
                    json.dump({"property": self.pid, "key": key, "what": what, "replay": replay}, f, indent=1)
                lines.append("VIOLATION property=%s replay=%s" % (self.pid, path))
        if new:
            os.makedirs(vdir, exist_ok=True)
            with open(os.path.join(vdir, "index.ndjson"), "w", encoding="utf8") as f:
                for key, what, replay in new:
                    f.write(json.dumps({"key": key, "what": what}) + "\n")
        seen_lines = lines[:50]
        for ln in seen_lines:
            print(ln)
        if len(new) > len(seen_lines):
            print("(%d further violations not listed)" % (len(new) - len(seen_lines)))
        cov = {
            "states": self.states, "transitions": self.transitions,
            "traces_validated_against_impl": self.traces,
            "samples": self.samples[:5] or ["<none>"],
            "events_validated": self.events, "cases_replayed": self.cases,
            "evaluations": max(self.events, 1), "rule": rule,
            "model_runs": self.mc_runs, "known_findings_hit": sorted(printed),
        }
        if self.exhaustive is not None:
            cov["exhaustive"] = self.exhaustive
        cov.update(self.notes)
        if extra:
            cov.update(extra)
        ev = {"property_id": self.pid, "tier": self.tier, "seed": self.seed, "level": "model_checking",
              "coverage": cov, "assumptions": self.assumptions,
              "wall_s": round(time.time() - self.t0, 2), "violations": len(new)}
        os.makedirs(EVID, exist_ok=True)
        with open(os.path.join(EVID, self.pid + ".json"), "w", encoding="utf8") as f:
            json.dump(ev, f, indent=1, ensure_ascii=True)
        log("%s %s: states=%d transitions=%d cases=%d events=%d violations=%d known=%d wall=%.1fs" % (
            self.pid, self.tier, self.states, self.transitions, self.cases, self.events, len(new), len(printed),
            time.time() - self.t0))
        return 1 if new else 0
