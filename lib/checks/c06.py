"""C06  Foreign keys are pure substitution (parser level, L1)."""
import json

import vp
from checks import loadfam
from checks.c05 import plural_oracle

LOCS = ["en", "fr", "ru", "de", "es"]
COUNTS = ["0", "1", "2", "11", "1.5"]


def _key(c, r):
    P = c["abs"]["P"]
    if c["family"] == "fk-fallback":
        pres = {l: (P["vals"][l]["a"]["k"] if "a" in P["vals"][l] else "abs") for l in P["locs"]}
        inh = P["inh"] if isinstance(P["inh"], dict) else {}
        return "fk-fallback;inherits=%s;a=%s;%s" % (json.dumps(inh, sort_keys=True), json.dumps(pres, sort_keys=True), sorted(r["tags"])[0])
    return "%s;%s;%s" % (c["family"], vp.fingerprint(P), sorted(r["tags"])[0])


RANGE_IDX = {"quick": [3, 5, 6], "thorough": [1, 2, 3, 4, 5, 6]}      # anchor indices of spec/RangesOps.Anchor
PLURAL_TOK = {"quick": ["0", "1", "2"], "thorough": ["0", "1", "2", "11"]}
ANCHOR_I32 = ["-2147483648", "-1", "0", "1", "5", "2147483647"]
ENV = {"x": "X1", "y": "Y2"}


def _prefix_fk(node, prefix):
    """`$t(k` -> `$t(<prefix>.k` in every string of a file tree"""
    t = node["t"]
    if t == "str":
        s, o, i = node["s"], [], 0
        while i < len(s):
            if s[i:i + 3] == ["DOL", "t", "LP"]:
                o += ["DOL", "t", "LP"] + list(prefix) + ["DOT"]
                i += 3
            else:
                o.append(s[i])
                i += 1
        return {"t": "str", "s": o}
    if t == "map":
        return {"t": "map", "e": [[k, _prefix_fk(v, prefix)] for k, v in node["e"]]}
    if t == "seq":
        return {"t": "seq", "e": [_prefix_fk(v, prefix) for v in node["e"]]}
    return node


def _calls_for(keys_sig, tier, path_of, locales, lean=False):
    """keys_sig: key name -> projected key of the L1 event.  Returns calls + per-call info for the trace."""
    import itertools
    import probe
    calls, info = [], {}
    for name in sorted(keys_sig):
        k = keys_sig[name]
        if k.get("t") != "value":
            continue
        vars_ = k.get("vars", {})
        comps = k.get("comps", [])
        cvars = sorted(v for v in vars_ if vars_[v]["count"] != "none")
        choices = []
        for v in cvars:
            ty = vars_[v]["count"]
            if ty == "plural":
                choices.append([{"ty": "plural", "idx": 0, "tok": t, "sym": list(t)} for t in PLURAL_TOK[tier]])
            elif ty == "i32":
                choices.append([{"ty": "i32", "idx": i, "tok": "", "sym": []} for i in RANGE_IDX[tier]])
            else:
                choices = None
                break
        if choices is None:
            continue
        for ci, combo in enumerate(itertools.product(*choices)):
            counts = dict(zip(cvars, combo))
            for loc in locales:
                # the view flavour is the expensive one to compile: with `lean`, one count choice per key and locale
                for flav in (("td_string", "td") if (ci == 0 or not lean) else ("td_string",)):
                    args = []
                    for v in sorted(vars_):
                        if v in counts:
                            c = counts[v]
                            lit = (c["tok"] + "u32") if c["ty"] == "plural" else ("(%si32)" % ANCHOR_I32[c["idx"] - 1])
                            args.append(["var", v, ("move || " + lit) if flav == "td" else lit])
                        else:
                            args.append(["var", v, json.dumps(ENV.get(v, v.upper()))])
                    args += [["comp", c, c] for c in sorted(comps)]
                    cid = len(calls) + 1
                    calls.append({"id": cid, "flav": flav, "locale": loc, "path": path_of(name), "args": args})
                    info[cid] = {"key": name, "locale": loc, "flav": flav, "counts": counts,
                                 "env": {v: probe.to_syms(ENV.get(v, v.upper())) for v in vars_ if v not in counts}}
    return calls, info


def run_l2(run, cases, l1_trace_path, ngraphs, nfamilies):
    """generated code: every key of a sample of accepted projects is rendered in every locale; the text must be what
    substitution (module Subst) says.  Graph projects are packed as subkey groups of one project per 100 graphs."""
    import os
    import random
    import probe
    rng = random.Random(run.seed)
    loads = {e["case"]: e for e in vp.read_ndjson(l1_trace_path) if e.get("ev") == "Load"}
    ok = [c for c in cases if loads.get(c["id"], {}).get("load", {}).get("outcome") == "Ok"]
    graphs = [c for c in ok if c["family"] == "fk-graph"]
    # formatted variables need typed values (dates, decimals): that family is decided at L1 (the recorded formatter), C18 renders formatters
    fams = [c for c in ok if c["family"] not in ("fk-graph", "fk-formatters") and "/" not in c["family"]]
    graphs = graphs if len(graphs) <= ngraphs else rng.sample(graphs, ngraphs)
    first = [c for c in fams if c["family"] != "fk-fallback"]
    fb = [c for c in fams if c["family"] == "fk-fallback"]
    fams = first + (fb if len(fb) <= nfamilies else rng.sample(fb, nfamilies))
    projects, metas = [], []
    # packed graphs: case index inside the trace = position in `used`
    used = []
    PACK = 100
    for k in range(0, len(graphs), PACK):
        entries, calls, info = [], [], {}
        for c in graphs[k:k + PACK]:
            used.append(c)
            ci = len(used)
            g = "g%04d" % ci
            entries.append([g, _prefix_fk(c["files"][0][1], list(g))])
            sig = loads[c["id"]]["load"]["units"][0]["keys"]
            cs, inf = _calls_for(sig, run.tier, lambda name, g=g: [g, name], ["en"])
            for call in cs:
                old = call["id"]
                call["id"] = len(calls) + 1
                calls.append(call)
                info[call["id"]] = dict(inf[old], case=ci)
        projects.append({"name": "c06g%02d" % (len(projects) + 1), "cfg": {"default": "en", "locales": ["en"]},
                         "files": [["en", {"t": "map", "e": entries}]], "calls": calls})
        metas.append(info)
    for c in fams:
        used.append(c)
        ci = len(used)
        sig = loads[c["id"]]["load"]["units"][0]["keys"]
        calls, inf = _calls_for(sig, run.tier, lambda name: [name], c["cfg"]["locales"], lean=(run.tier == "quick" and len(sig) > 100))
        projects.append({"name": "c06f%02d" % (len(projects) + 1), "cfg": c["cfg"], "files": c["files"], "calls": calls})
        metas.append({i: dict(v, case=ci) for i, v in inf.items()})
    results, log = probe.build_and_run(run, projects, tag="_c06")
    trace = []
    for pi, p in enumerate(projects):
        r = results[p["name"]]
        if not r["built"]:
            run.violation("l2-build;" + p["name"], "a project the parser accepts does not compile", {"build_log": r["build_log"] or log[-3000:]})
            continue
        seen = set()
        for ev in r["events"]:
            m = metas[pi][ev["call"]]
            seen.add(ev["call"])
            trace.append({"ev": "Render", "case": m["case"], "key": m["key"], "locale": m["locale"], "flav": m["flav"], "env": m["env"],
                          "counts": m["counts"], "outcome": ev["outcome"], "out": probe.to_syms(ev["out"])})
        if len(seen) != len(p["calls"]):
            raise vp.ToolError("probe %s printed %d of %d results (rc=%s, %s)" % (p["name"], len(seen), len(p["calls"]), r.get("rc"), r.get("stderr", "")[-300:]))
    trace.append({"ev": "End"})
    wd = os.path.join(run.workdir, "l2")
    os.makedirs(wd, exist_ok=True)
    tpath, cpath = os.path.join(wd, "trace.ndjson"), os.path.join(wd, "cases.ndjson")
    vp.write_ndjson(tpath, trace)
    vp.write_ndjson(cpath, [{"id": i + 1, "abs": c["abs"]} for i, c in enumerate(used)])
    oracle = plural_oracle(run, LOCS, COUNTS)
    summary, rejects, _ = vp.trace_validate("Trace_Fk", "Trace_Fk.cfg", wd, tpath, cpath, env={"ORACLE": oracle}, timeout=3600)
    if summary["consumed"] != summary["events"]:
        raise vp.ToolError("trace spec consumed %s of %s events" % (summary["consumed"], summary["events"]))
    run.traces += len(projects)
    run.events += summary["events"]
    for rj in rejects:
        ev = trace[rj["l"] - 1]
        c = used[ev["case"] - 1]
        run.violation("l2;%s;%s;key=%s;locale=%s;%s;counts=%s" % (c["family"], vp.fingerprint(c["abs"]["P"]), ev["key"], ev["locale"], ev["flav"],
                                                                  json.dumps({k: (v["tok"] or v["idx"]) for k, v in ev["counts"].items()}, sort_keys=True)),
                      "generated code shows %r (%s)" % (vp.text_of(ev["out"]), sorted(rj["tags"])[0]), {"event": ev, "P": c["abs"]["P"]})
    return len(trace) - 1


def gen(run):
    graphs, res = loadfam.gen_cases(run, "MC_Fk", "MC_Fk_%s.cfg" % run.tier, timeout=7200)
    if len(graphs) < 100:
        raise vp.ToolError("MC_Fk produced too few graphs")
    mut = vp.tlc("MC_Fk", "MC_Fk_asimpl.cfg", run.workdir)
    run.notes["spec_mutant_PopulateEntersResolved_FALSE_detected"] = (mut["violated"] == "FinalIsSubst")
    if mut["violated"] != "FinalIsSubst":
        raise vp.ToolError("spec mutant MC_Fk_asimpl was not detected by TLC")
    fams, res2 = loadfam.gen_cases(run, "MC_FkFamilies", "MC_FkFamilies.cfg" if run.tier == "quick" else "MC_FkFamilies_thorough.cfg", workers=1)
    # the same families with the references written loosely (blanks wherever they are allowed) and without any blank: the meaning
    # of a reference does not depend on its spelling (L1 only: the abstract cases are the same)
    for cfg, tag in (("MC_FkFamilies_loose.cfg", "loose"), ("MC_FkFamilies_nosp.cfg", "nosp")):
        more, _ = loadfam.gen_cases(run, "MC_FkFamilies", cfg, name="MC_FkFamilies/" + cfg, workers=1)
        for c in more:
            if c["family"] != "fk-arm-shapes":
                c["family"] = c["family"] + "/" + tag
                fams.append(c)
    # numbers as values and as reference arguments (module Numbers): every spelling shows the number's plain decimal expansion, also
    # when it arrives through a reference between text and a variable.  All portable projects at L1; the first and the last project of
    # literals (the extremes are in the last one) and the first project of arguments also go through the generated code (L2)
    nums, _ = loadfam.gen_cases(run, "MC_Numbers", "MC_Numbers.cfg", workers=1)
    # ("numbers-arms": numbers as the value of range arms and plural forms, selected by literal counts - L1 and L2)
    nums = [c for c in nums if c["family"] in ("numbers", "numbers-arms")]
    lits = [c for c in nums if c["family"] == "numbers" and "tgt" not in c["abs"]["P"]["vals"]["en"]]
    args = [c for c in nums if "tgt" in c["abs"]["P"]["vals"]["en"]]
    if not lits or not args:
        raise vp.ToolError("MC_Numbers produced no projects")
    ext = [c for c in lits if any(len(e.get("disp", [])) > 300 for e in c["abs"]["P"]["vals"]["en"].values())]     # largest / smallest double
    if not ext:
        raise vp.ToolError("MC_Numbers: the project with the extremes is missing")
    l2 = [id(lits[0]), id(ext[0]), id(args[0])]
    for c in nums:
        if c["family"] == "numbers" and id(c) not in l2:
            c["family"] = "numbers/l1"
    fams += nums
    return graphs, fams


def check(run):
    graphs, fams = gen(run)
    oracle = plural_oracle(run, LOCS, COUNTS)
    run.samples = [{"family": fams[0]["family"], "P": fams[0]["abs"]["P"]}, {"family": "fk-graph", "vals": graphs[len(graphs) // 2]["abs"]["P"]["vals"]}]
    loadfam.replay_load(run, graphs + fams, "Trace_Fk", "Trace_Fk.cfg", build_features=("json", "quote"),
                        variant="json-quote", key_of=_key, trace_env={"ORACLE": oracle})
    loadfam.replay_suppressed(run, graphs + fams, "Trace_Fk", "Trace_Fk.cfg", _key, trace_env={"ORACLE": oracle})
    # references by PATH into nested groups (one, two, three segments; the same names at several levels), plain and inside a namespace
    pcases, _ = loadfam.gen_cases(run, "MC_FkPaths", "MC_FkPaths.cfg", workers=1)
    kp = lambda c, r: "fk-paths;%s" % sorted(r["tags"])[0]
    loadfam.replay_load(run, pcases, "Trace_FkPaths", "Trace_FkPaths.cfg", build_features=("json", "quote"), variant="json-quote", key_of=kp, tag="_paths")
    loadfam.replay_load(run, loadfam.namespaced(pcases), "Trace_FkPaths", "Trace_FkPaths.cfg", build_features=("json", "quote"), variant="json-quote",
                        key_of=lambda c, r: "namespaced;" + kp(c, r), tag="_paths_ns")
    quick = run.tier == "quick"
    import os
    run.notes["l2_render_events"] = run_l2(run, graphs + fams, os.path.join(run.workdir, "load", "trace.ndjson"),
                                           200 if quick else 2000, 4 if quick else 45)
    run.exhaustive = True
    run.notes["graphs"] = len(graphs)
    run.notes["family_cases"] = len(fams)
    run.assumptions = ["exhaustive part: every assignment of 3 keys to value shapes (text, variable, component, reference to any key with an argument choice), cyclic graphs included",
                       "families beyond it: range / plural targets with literal and renamed counts, chains, nested references in arguments, null / absent targets under inherits maps, rejected references",
                       "a reference to a key that is absent (not null) in the referring locale but present in the default may be rejected",
                       "L2: a seeded sample of the accepted graph projects (packed 100 per crate as subkey groups) and the family projects are compiled with load_locales!() and every key is rendered by td_string! and td! in every locale, with range counts at anchors and plural counts as integer tokens; expected text = RenderX(Resolved(P, locale, key))"]
    return run.finish("all 3-key reference graphs of the bounded shape universe + hand-written families; non-trivial: projects containing at least one reference",
                      {"distinct_nontrivial": len(graphs) + len(fams)})


def replay(run, path):
    rp = json.load(open(path))["replay"]
    oracle = plural_oracle(run, LOCS, COUNTS)
    loadfam.replay_load(run, [rp["case"]], "Trace_Fk", "Trace_Fk.cfg", build_features=("json", "quote"),
                        variant="json-quote", keep_dirs=True, trace_env={"ORACLE": oracle})
    return run.finish("replay of one recorded case")
