"""C06  Foreign keys are pure substitution (parser level, L1)."""
import json

import vp
from checks import loadfam
from checks.c05 import plural_oracle

LOCS = ["en", "fr", "ru", "de"]
COUNTS = ["0", "1", "2", "11", "1.5"]


def _key(c, r):
    P = c["abs"]["P"]
    if c["family"] == "fk-fallback":
        pres = {l: (P["vals"][l]["a"]["k"] if "a" in P["vals"][l] else "abs") for l in P["locs"]}
        inh = P["inh"] if isinstance(P["inh"], dict) else {}
        return "fk-fallback;inherits=%s;a=%s;%s" % (json.dumps(inh, sort_keys=True), json.dumps(pres, sort_keys=True), sorted(r["tags"])[0])
    return "%s;%s;%s" % (c["family"], vp.fingerprint(P), sorted(r["tags"])[0])


def gen(run):
    graphs, res = loadfam.gen_cases(run, "MC_Fk", "MC_Fk_%s.cfg" % run.tier, timeout=7200)
    if len(graphs) < 100:
        raise vp.ToolError("MC_Fk produced too few graphs")
    mut = vp.tlc("MC_Fk", "MC_Fk_asimpl.cfg", run.workdir)
    run.notes["spec_mutant_PopulateEntersResolved_FALSE_detected"] = (mut["violated"] == "FinalIsSubst")
    if mut["violated"] != "FinalIsSubst":
        raise vp.ToolError("spec mutant MC_Fk_asimpl was not detected by TLC")
    fams, res2 = loadfam.gen_cases(run, "MC_FkFamilies", "MC_FkFamilies.cfg", workers=1)
    return graphs, fams


def check(run):
    graphs, fams = gen(run)
    oracle = plural_oracle(run, LOCS, COUNTS)
    run.samples = [{"family": fams[0]["family"], "P": fams[0]["abs"]["P"]}, {"family": "fk-graph", "vals": graphs[len(graphs) // 2]["abs"]["P"]["vals"]}]
    loadfam.replay_load(run, graphs + fams, "Trace_Fk", "Trace_Fk.cfg", build_features=("json", "quote"),
                        variant="json-quote", key_of=_key, trace_env={"ORACLE": oracle})
    run.exhaustive = True
    run.notes["graphs"] = len(graphs)
    run.notes["family_cases"] = len(fams)
    run.assumptions = ["exhaustive part: every assignment of 3 keys to value shapes (text, variable, component, reference to any key with an argument choice), cyclic graphs included",
                       "families beyond it: range / plural targets with literal and renamed counts, chains, nested references in arguments, null / absent targets under inherits maps, rejected references",
                       "a reference to a key that is absent (not null) in the referring locale but present in the default may be rejected",
                       "parser level; rendering by generated code is the L2 check"]
    return run.finish("all 3-key reference graphs of the bounded shape universe + hand-written families; non-trivial: projects containing at least one reference",
                      {"distinct_nontrivial": len(graphs) + len(fams)})


def replay(run, path):
    rp = json.load(open(path))["replay"]
    oracle = plural_oracle(run, LOCS, COUNTS)
    loadfam.replay_load(run, [rp["case"]], "Trace_Fk", "Trace_Fk.cfg", build_features=("json", "quote"),
                        variant="json-quote", keep_dirs=True, trace_env={"ORACLE": oracle})
    return run.finish("replay of one recorded case")
