---------------------------- MODULE StringsCases ----------------------------
EXTENDS Strings, Json

MCAlphabet == {"a", "QUOT", "BSL", "NL", "CTRL1", "NBSP", "ZW", "EMO", "LS"}
MCLiterals == { <<>>, << <<"a">>, <<"b">>, <<"a">> >>, << <<"a">>, <<"a">>, <<"a">> >>, << <<"b">>, <<"a">>, <<"b">>, <<"c">>, <<"a">> >>,
                << <<"QUOT">>, <<"BSL">>, <<"QUOT">> >> }

\* one CASE per explored string (emitted when it has been decoded)
EmitCases == phase = "decoded" /\ todo = <<>> /\ Len(given) = 0 => PrintT(<<"CASE", ToJson([family |-> "string", s |-> s])>>)
MCSpec == Init /\ [][Next]_vars
=============================================================================
