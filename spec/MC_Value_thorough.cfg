CONSTANTS
  Texts <- MCTexts
  VarNames <- MCVars
  CompNames <- MCComps
  MaxTokens = 5
  MaxDepth = 3
SPECIFICATION MCSpec
INVARIANTS Canonical RoundTripMC DenoteIsSource EmitCases EmitScale ScaleRoundTrip
PROPERTY Termination
CHECK_DEADLOCK FALSE
