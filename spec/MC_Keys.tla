------------------------------ MODULE MC_Keys ------------------------------
EXTENDS Keys, KeysCases, Json

CONSTANTS K2, S2, Z
MCDefTrees == DefaultTrees
MCLocTrees == Universe(K2, S2, Z)

EmitCases == (work = {<<>>} /\ warns = <<>> /\ err = <<>> /\ ~silent) =>
                 PrintT(<<"CASE", ToJson(CaseOf(dtree, ltree))>>)

EmitNullCases == (work = {<<>>} /\ ~silent /\ ltree = EmptyTree /\ dtree = CHOOSE d \in DefaultTrees : TRUE) =>
                 /\ PrintT(<<"CASE", ToJson(NullDefaultCase(1))>>)
                 /\ PrintT(<<"CASE", ToJson(NullDefaultCase(2))>>)

MCSpec == Init /\ [][Next]_vars /\ WF_vars(Next)
=============================================================================
