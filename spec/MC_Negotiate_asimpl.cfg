\* spec mutant: the global specificity sort of the pinned implementation; TLC must find a counterexample
CONSTANTS
  Requests <- MCRequests
  Avails <- MCAvails
  Defaults <- MCDefaults
  SortScope = "global"
  MaxReq = 2
  MaxAvail = 3
SPECIFICATION MCSpec
INVARIANTS HonoursPreference
CHECK_DEADLOCK FALSE
