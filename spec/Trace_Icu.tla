------------------------------ MODULE Trace_Icu ------------------------------
(* Validates what TranslationsInfos reports (ICU data keys, locales,          *)
(* namespaces) against Needs.  The family -> DataKey table is read from the   *)
(* public Options::into_data_keys (logged by the driver), so the comparison   *)
(* is at the level of option sets.                                            *)
EXTENDS IcuOps, Json, IOUtils

Rec   == ndJsonDeserialize(IOEnv.TRACE)
Cases == ndJsonDeserialize(IOEnv.CASES)

VARIABLE l

NsName(i) == "n" \o ToString(i)

CaseTags(ev) ==
    LET p == Cases[ev.case].abs
        uses == Range(p.uses) IN
    IF ev.outcome # "Ok" THEN {"outcome:" \o ev.outcome}
    ELSE LET want == UNION { Range(ev.familyKeys[o]) : o \in Needs(uses) }
             opts == { o \in DOMAIN ev.familyKeys : Range(ev.familyKeys[o]) \subseteq Range(ev.res.keys) /\ ev.familyKeys[o] # <<>> } IN
         (IF Range(ev.res.keys) = want THEN {}
          ELSE { "missing-data-for:" \o o : o \in Needs(uses) \ opts }
               \cup (IF Range(ev.res.keys) \ want # {} THEN {"data-not-needed"} ELSE {}))
         \cup (IF Range(ev.res.locales) = {"en", "fr"} /\ Len(ev.res.locales) = 2 THEN {} ELSE {"locales"})
         \cup (IF ev.res.namespaces = (IF p.units = 0 THEN None ELSE [i \in 1..p.units |-> NsName(i)]) THEN {} ELSE {"namespaces"})

Tags(ev) == IF ev.ev = "Build" THEN CaseTags(ev)
            ELSE IF ev.ev = "Crash" THEN {"crash:" \o ev.outcome}
            ELSE {}

TraceInit == l = 1
TraceNext ==
    /\ l <= Len(Rec)
    /\ l' = l + 1
    /\ LET tags == Tags(Rec[l]) IN
         tags = {} \/ PrintT(<<"REJECT", ToJson([l |-> l, case |-> Rec[l].case, tags |-> tags])>>)
TraceSpec == TraceInit /\ [][TraceNext]_l

Post == PrintT(<<"SUMMARY", ToJson([events |-> Len(Rec), consumed |-> TLCGet("stats").diameter - 1])>>)
=============================================================================
