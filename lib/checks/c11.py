"""C11  Exported string tables match the indices the generated code reads."""
import json
import os
import random
import shutil

import vp
from checks import loadfam


def S(syms):
    return {"t": "str", "s": syms}


def project(strings, idx, namespaces):
    """strings as keys k0001.. (en: j-th, fr: reversed) + duplicates, a subkey group, a foreign key and a plural,
    so that indices are shared, nested and reached through substitution."""
    n = len(strings)
    names = ["k%04d" % (j + 1) for j in range(n)]

    def loc(order, tag):
        e = [[names[j], S(order[j])] for j in range(n)]
        # keys whose kind differs between locales: a number / boolean in the default locale, a string elsewhere (and the reverse);
        # every string of every locale must still get an index
        if tag == "e":
            e += [["mixn", {"t": "raw", "v": "42"}], ["mixb", {"t": "raw", "v": "true"}], ["mixs", S([tag, "m", "s"])]]
        else:
            e += [["mixn", S(order[0] + ["n"])], ["mixb", S(order[min(1, n - 1)] + ["b"])], ["mixs", {"t": "raw", "v": "7"}]]
        e.append(["dup", S(order[0])])
        e.append(["g", {"t": "map", "e": [["s", S(order[min(1, n - 1)])], ["t", S([tag, "g"])], ["mix", {"t": "raw", "v": "1.5"} if tag == "e" else S(order[0] + ["g"])],
                                          ["h", {"t": "map", "e": [["u", S(order[0])], ["v", S([tag, "h"])]]}]]}])
        e.append(["fk", S(["DOL", "t", "LP"] + (["z", "z", "COLON"] if namespaces else []) + list("k0001") + ["RP", "x"])])
        e.append(["p_one", S([tag, "o", "n", "e"])])
        e.append(["p_other", S([tag, "m", "LB", "LB", "c", "o", "u", "n", "t", "RB", "RB", "m"])])
        return {"t": "map", "e": e}

    en = loc(strings, "e")
    fr = loc(list(reversed(strings)), "f")
    # a third locale sharing every string with the second one (same set, different positions): tables are per locale
    rot = strings[1:] + strings[:1]
    de = loc(rot, "f")
    if namespaces:
        small = {"t": "map", "e": [["z", S(strings[0])], ["y", S(["n", "2"])]]}
        # declared in non-alphabetical order: anything keyed by namespace must not rely on sorted order
        files = [["en/zz", en], ["fr/zz", fr], ["de/zz", de], ["en/aa", small], ["fr/aa", small], ["de/aa", small]]
        cfg = {"default": "en", "locales": ["en", "fr", "de"], "namespaces": ["zz", "aa"]}
    else:
        files = [["en", en], ["fr", fr], ["de", de]]
        cfg = {"default": "en", "locales": ["en", "fr", "de"]}
    return {"family": "strings", "abs": {"names": names, "values": strings, "namespaces": namespaces}, "cfg": cfg, "files": files}


SERVERFN_MAIN = r"""#![allow(warnings)]
leptos_i18n::load_locales!();
use i18n::*;
use leptos_i18n::Locale as _;

fn esc(s: &str) -> String {
    let mut o = String::new();
    for c in s.chars() {
        match c {
            '"' => o.push_str("\\\""),
            '\\' => o.push_str("\\\\"),
            c if (c as u32) < 0x20 => o.push_str(&format!("\\u{:04x}", c as u32)),
            c => o.push(c),
        }
    }
    o
}

fn main() {
    std::panic::set_hook(Box::new(|_| {}));
    let _ = any_spawner::Executor::init_futures_executor();
    for locale in Locale::get_all().iter().copied() {
        for (unit, id) in [__UNITS__] {
            let r = std::panic::catch_unwind(|| {
                // what the server answers, then what the client does with the answer
                let answer = futures::executor::block_on(locale.request_translations(id)).map_err(|e| e.to_string())?;
                let json = serde_json::to_string(&answer).map_err(|e| e.to_string())?;
                let received: Vec<Box<str>> = serde_json::from_str(&json).map_err(|e| e.to_string())?;
                Ok::<_, String>(received)
            });
            match r {
                Ok(Ok(v)) => println!("{{\"locale\":\"{}\",\"unit\":\"{}\",\"outcome\":\"Ok\",\"strings\":[{}]}}", locale.as_str(), unit,
                                      v.iter().map(|s| format!("\"{}\"", esc(s))).collect::<Vec<_>>().join(",")),
                Ok(Err(e)) => println!("{{\"locale\":\"{}\",\"unit\":\"{}\",\"outcome\":\"Err\",\"strings\":[]}}", locale.as_str(), unit),
                Err(_) => println!("{{\"locale\":\"{}\",\"unit\":\"{}\",\"outcome\":\"Panic\",\"strings\":[]}}", locale.as_str(), unit),
            }
        }
    }
}
"""


def run_serverfn(run, projects, wd, cases_path, load_trace, nplain, nns):
    """third exporter: the server function answering lazy-loading clients (dynamic_load + ssr)"""
    import probe
    plain = [c for c in projects if not c["abs"]["namespaces"]][:nplain]
    nsd = [c for c in projects if c["abs"]["namespaces"]][:nns]
    chosen = plain + nsd
    probes = []
    for c in chosen:
        units = '("zz", I18nTranslationUnitsId::zz), ("aa", I18nTranslationUnitsId::aa)' if c["abs"]["namespaces"] else '("none", ())'
        probes.append({"name": "c11s%03d" % c["id"], "cfg": c["cfg"], "files": c["files"], "main": SERVERFN_MAIN.replace("__UNITS__", units)})
    saved = probe.FEATURES
    probe.FEATURES = ['"json_files"', '"icu_compiled_data"', '"cookie"', '"ssr"', '"dynamic_load"', '"plurals"']
    try:
        results, log = probe.build_and_run(run, probes, tag="_c11")
    finally:
        probe.FEATURES = saved
    trace = []
    for c, p in zip(chosen, probes):
        r = results[p["name"]]
        if not r["built"]:
            run.violation("serverfn-build;namespaces=%s" % c["abs"]["namespaces"], "project does not compile with dynamic_load + ssr", {"build_log": r["build_log"] or log[-3000:]})
            continue
        n_units = 2 if c["abs"]["namespaces"] else 1
        if len(r["events"]) != 3 * n_units:
            raise vp.ToolError("probe %s printed %d of %d answers (rc=%s, %s)" % (p["name"], len(r["events"]), 3 * n_units, r.get("rc"), r.get("stderr", "")[-300:]))
        for ev in r["events"]:
            trace.append({"ev": "ServerFn", "case": c["id"], "locale": ev["locale"], "unit": ev["unit"], "outcome": ev["outcome"],
                          "strings": [probe.to_syms(s) for s in ev["strings"]]})
    trace.append({"ev": "End"})
    tpath = os.path.join(wd, "serverfn_trace.ndjson")
    vp.write_ndjson(tpath, trace)
    summary, rejects, _ = vp.trace_validate("Trace_Strings", "Trace_Strings.cfg", wd, tpath, cases_path, env={"LOADTRACE": load_trace})
    if summary["consumed"] != summary["events"]:
        raise vp.ToolError("trace spec consumed %s of %s events" % (summary["consumed"], summary["events"]))
    run.traces += len(probes)
    run.events += summary["events"]
    for rj in rejects:
        ev = trace[rj["l"] - 1]
        run.violation("serverfn;namespaces=%s;unit=%s;locale=%s;%s" % (projects[ev["case"] - 1]["abs"]["namespaces"], ev["unit"], ev["locale"], sorted(rj["tags"])[0].split(":")[0]),
                      "the table served for lazy loading differs from the table the accessors index", {"event": loadfam._shrink(ev), "tags": sorted(rj["tags"])})
    return len(trace) - 1


def check(run):
    quick = run.tier == "quick"
    cases, res = loadfam.gen_cases(run, "StringsCases", "MC_Strings_%s.cfg" % run.tier, timeout=3600)
    strings = [c["s"] for c in cases]
    if len(strings) < 100:
        raise vp.ToolError("too few strings")
    rng = random.Random(run.seed)
    rng.shuffle(strings)
    per = 60
    projects = []
    for i in range(0, len(strings), per):
        chunk = strings[i:i + per]
        if len(chunk) >= 2:
            projects.append(project(chunk, i, namespaces=(len(projects) % 3 == 2)))
    wd = os.path.join(run.workdir, "strings")
    shutil.rmtree(wd, ignore_errors=True)
    os.makedirs(wd)
    rows = []
    for i, c in enumerate(projects):
        c["id"] = i + 1
        d = os.path.join(wd, "p%05d" % (i + 1))
        vp.materialise(c, d)
        rows.append({"case": i + 1, "mode": "load", "dir": d, "skip_icu": True})
    cases_path = os.path.join(wd, "cases.ndjson")
    vp.write_ndjson(cases_path, [{"id": c["id"], "abs": c["abs"]} for c in projects])
    drv_in = os.path.join(wd, "drv_in.ndjson")
    vp.write_ndjson(drv_in, rows)
    load_trace = os.path.join(wd, "load_trace.ndjson")
    build_trace = os.path.join(wd, "build_trace.ndjson")
    vp.run_driver(vp.cargo_build("drv_parser", ("json",), variant="json"), drv_in, load_trace, len(rows))
    vp.run_driver(vp.cargo_build("drv_build"), drv_in, build_trace, len(rows), per_case_timeout=60)
    summary, rejects, _ = vp.trace_validate("Trace_Strings", "Trace_Strings.cfg", wd, build_trace, cases_path,
                                            env={"LOADTRACE": load_trace})
    if summary["consumed"] != summary["events"]:
        raise vp.ToolError("trace spec consumed %s of %s events" % (summary["consumed"], summary["events"]))
    run.traces += 2 * len(rows)
    run.events += summary["events"] + len(rows)
    run.cases += len(rows)
    builds = {e["case"]: e for e in vp.read_ndjson(build_trace) if e.get("ev") in ("Build", "Crash")}
    for r in rejects:
        c = projects[r["case"] - 1]
        tags = sorted(r["tags"])
        kinds = sorted({t.split(":")[0] for t in tags})
        # identify the finding by the kind of disagreement and the characters involved
        chars = sorted({s for v in c["abs"]["values"] for s in v if s not in ("a",)})
        run.violation("strings;%s;chars=%s" % (",".join(kinds), ",".join(chars)), "case %d tags %s" % (r["case"], tags[:6]),
                      {"case": loadfam._shrink(c, 60000), "tags": tags[:50], "event": loadfam._shrink(builds.get(r["case"])),
                       "dir": os.path.join(wd, "p%05d" % r["case"])})
    run.notes["serverfn_answers"] = run_serverfn(run, projects, wd, cases_path, load_trace, 1 if quick else 8, 1 if quick else 8)
    run.samples = [{"strings": projects[0]["abs"]["values"][:5]}]
    run.exhaustive = True
    run.notes["strings"] = len(strings)
    run.assumptions = ["every string of at most MaxLen characters over {a, quote, backslash, newline, U+0001, U+00A0, U+200B, U+1F600, U+2028}",
                       "each project also has duplicated strings, nested subkeys, a foreign key and a plural so that indices are shared, nested and reached through substitution; every third project uses namespaces",
                       "three exporters are compared with the table the parser built (whose per-literal indices are validated): the build helper's files, and - for a sample of projects compiled with dynamic_load + ssr - the answer of the generated server function Locale::request_translations, decoded the way the client decodes it; namespaces are declared in non-alphabetical order"]
    return run.finish("all strings of the bounded alphabet, ~60 per project; non-trivial: strings with a character that needs escaping or is non-ASCII",
                      {"distinct_nontrivial": sum(1 for s in strings if any(x != "a" for x in s))})


def replay(run, path):
    raise vp.ToolError("replay: re-run `bin/check C11`; the directory of the failing project is recorded in the replay file")
