------------------------------ MODULE MC_Keys ------------------------------
EXTENDS Keys, KeysCases, Json

CONSTANTS K2, S2, Z
MCDefTrees == DefaultTrees
MCLocTrees == Universe(K2, S2, Z)
\* one fixed state in which the once-only families are printed
FirstLocTree == CHOOSE t \in MCLocTrees : TRUE

EmitCases == (work = {<<>>} /\ warns = <<>> /\ err = <<>> /\ ~silent) =>
                 PrintT(<<"CASE", ToJson(CaseOf(dtree, ltree))>>)

EmitNullCases == (work = {<<>>} /\ ~silent /\ ltree = FirstLocTree /\ dtree = CHOOSE d \in DefaultTrees : TRUE) =>
                 /\ PrintT(<<"CASE", ToJson(NullDefaultCase(1))>>)
                 /\ PrintT(<<"CASE", ToJson(NullDefaultCase(2))>>)

EmitCrossCases == (work = {<<>>} /\ ~silent /\ ltree = FirstLocTree /\ dtree = CHOOSE d \in DefaultTrees : TRUE) =>
                 \A t1 \in CrossTrees, t2 \in CrossTrees : t1 = t2 \/ PrintT(<<"CASE", ToJson(CaseOf2(FullDefault, t1, t2))>>)

MCSpec == Init /\ [][Next]_vars /\ WF_vars(Next)
=============================================================================
