---------------------------- MODULE Trace_Formatter ----------------------------
(* L1: the formatter recorded for `{{ v, text }}` by the real parser is the      *)
(*     meaning of the text (Load events);                                        *)
(* L2: what a generated accessor renders for a formatter key equals direct       *)
(*     ICU4X formatting with the options the text means (Fmt events), whatever   *)
(*     the order of calls and the number of threads.                             *)
EXTENDS FormatterOps, Json, IOUtils

Rec   == ndJsonDeserialize(IOEnv.TRACE)
Cases == ndJsonDeserialize(IOEnv.CASES)
VARIABLE l

LoadTags(ev) ==
    LET a == Cases[ev.case].abs IN
    IF ev.load.outcome # "Ok" THEN {"outcome:" \o ev.load.outcome}
    ELSE LET keys == ev.load.units[1].keys IN
         UNION { LET it == a.items[j] IN
                 IF a.names[j] \notin DOMAIN keys THEN {"nokey:" \o a.names[j]}
                 ELSE LET vars == keys[a.names[j]].vars IN
                      IF "v" \in DOMAIN vars /\ vars["v"].fmts = << Meaning(it.kind, it.written) >> THEN {} ELSE {"formatter:" \o a.names[j]}
               : j \in DOMAIN a.names }

FmtTags(ev) ==
    LET a == Cases[ev.case].abs
        m == MeaningOfText(a.catalogue[ev.key]) IN
    (IF m.name = ev.kind /\ m.args = ev.args THEN {} ELSE {"harness-options-mismatch"})
    \cup (IF ev.out = ev.icu THEN {} ELSE {"output:" \o ev.key \o ":" \o ev.locale})

\* the same for a value of the value universe (FormatterValues): the event's value is one the case lists for that kind, the
\* options are the text's meaning, and the output is ICU4X's for the canonical decimal / list / date of the value
FmtValTags(ev) ==
    LET a == Cases[ev.case].abs
        m == MeaningOfText(a.catalogue[ev.key]) IN
    (IF m.name = ev.kind /\ m.args = ev.args THEN {} ELSE {"harness-options-mismatch"})
    \cup (IF \E i \in DOMAIN a.values : a.values[i].ty = ev.ty /\ a.values[i].text = ev.text /\ ev.kind \in ToSet(a.values[i].kinds)
          THEN {} ELSE {"harness-value-not-in-case"})
    \* (an empty text is rendered to HTML as a single blank by the view layer itself - a placeholder text node for hydration)
    \cup (IF ev.out = ev.icu \/ (ev.via = "td" /\ ev.icu = "" /\ ev.out = " ") THEN {}
          ELSE {"value-output:" \o ev.key \o ":" \o ev.ty \o ":" \o ev.text})

Tags(ev) == IF ev.ev = "Load" THEN LoadTags(ev)
            ELSE IF ev.ev = "Fmt" THEN FmtTags(ev)
            ELSE IF ev.ev = "FmtVal" THEN FmtValTags(ev)
            ELSE IF ev.ev = "Crash" THEN {"crash:" \o ev.outcome}
            ELSE {}

TraceInit == l = 1
TraceNext ==
    /\ l <= Len(Rec)
    /\ l' = l + 1
    /\ LET tags == Tags(Rec[l]) IN
         tags = {} \/ PrintT(<<"REJECT", ToJson([l |-> l, case |-> Rec[l].case, tags |-> tags])>>)
TraceSpec == TraceInit /\ [][TraceNext]_l
Post == PrintT(<<"SUMMARY", ToJson([events |-> Len(Rec), consumed |-> TLCGet("stats").diameter - 1])>>)
=============================================================================
