SPECIFICATION Spec
CHECK_DEADLOCK FALSE
CONSTANTS FkSp <- NoSp
