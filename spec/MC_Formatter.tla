----------------------------- MODULE MC_Formatter -----------------------------
EXTENDS Formatter, Json
Ws(n, c, s) == [n |-> n, c |-> c, s |-> s]
MCWs == { Ws(<<>>, <<>>, <<>>), Ws(<<"SP">>, <<"SP">>, <<"SP">>), Ws(<<>>, <<"SP","SP">>, <<>>), Ws(<<"TAB">>, <<>>, <<"NBSP">>), Ws(<<>>, <<>>, <<"SP">>) }
\* the generator and the cache are independent; emit one CASE per finished text with the idle cache
EmitCases == (done /\ \A t \in Threads : pc[t] = "idle") =>
    PrintT(<<"CASE", ToJson([family |-> "formatter", abs |-> [kind |-> kind, written |-> written, parens |-> parens],
                             texts |-> SortedSeq({ FormatterText(kind, written, parens, ws) : ws \in MCWs })])>>)
MCSpec == Init /\ [][Next]_vars
\* explore the two machines separately: the generator with an idle cache, the cache with a finished generator
GenOnly == \A t \in Threads : pc[t] = "idle"
CacheOnly == kind = "number" /\ written = <<>> /\ parens = FALSE
=============================================================================
