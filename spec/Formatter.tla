------------------------------- MODULE Formatter -------------------------------
(* Two machines:                                                               *)
(*  - a generator of formatter texts (kind, up to MaxArgs written arguments    *)
(*    incl. unknown names / values and duplicates, optional whitespace) on     *)
(*    which parsing must give the declared meaning;                            *)
(*  - the process-wide formatter cache: threads take the lock, look their key  *)
(*    up, create and insert on a miss, release; each thread must get the       *)
(*    formatter of ITS key and a key is created at most once.                  *)
EXTENDS FormatterOps

CONSTANTS MaxArgs, WsChoices,
          Threads, CacheKeys

VARIABLES kind, written, parens, done,                  \* generator
          lock, cache, pc, want, got, created           \* cache
vars == <<kind, written, parens, done, lock, cache, pc, want, got, created>>

Bogus == <<"z","z","z","z">>
ArgChoices(k) == UNION { { [a |-> OptionSpec[k][i].arg, v |-> v] : v \in OptionSpec[k][i].vals \cup {Bogus} } : i \in DOMAIN OptionSpec[k] }
                 \cup { [a |-> <<"f","o","o">>, v |-> <<"b","a","r">>] }

Init == /\ kind \in Kinds /\ written = <<>> /\ parens \in BOOLEAN /\ done = FALSE
        /\ lock = "free" /\ cache = {} /\ pc = [t \in Threads |-> "idle"] /\ want \in [Threads -> CacheKeys]
        /\ got = [t \in Threads |-> "none"] /\ created = <<>>

AddArg(x) == ~done /\ parens /\ Len(written) < MaxArgs /\ written' = Append(written, x) /\ UNCHANGED <<kind, parens, done, lock, cache, pc, want, got, created>>
Finish == ~done /\ done' = TRUE /\ UNCHANGED <<kind, written, parens, lock, cache, pc, want, got, created>>

Acquire(t) == pc[t] = "idle" /\ lock = "free" /\ lock' = t /\ pc' = [pc EXCEPT ![t] = "locked"] /\ UNCHANGED <<kind, written, parens, done, cache, want, got, created>>
Lookup(t) == /\ pc[t] = "locked"
             /\ IF want[t] \in cache THEN got' = [got EXCEPT ![t] = want[t]] /\ pc' = [pc EXCEPT ![t] = "have"] /\ UNCHANGED <<cache, created>>
                ELSE pc' = [pc EXCEPT ![t] = "miss"] /\ UNCHANGED <<got, cache, created>>
             /\ UNCHANGED <<kind, written, parens, done, lock, want>>
Insert(t) == /\ pc[t] = "miss" /\ cache' = cache \cup {want[t]} /\ created' = Append(created, want[t])
             /\ got' = [got EXCEPT ![t] = want[t]] /\ pc' = [pc EXCEPT ![t] = "have"]
             /\ UNCHANGED <<kind, written, parens, done, lock, want>>
Release(t) == pc[t] = "have" /\ lock = t /\ lock' = "free" /\ pc' = [pc EXCEPT ![t] = "done"] /\ UNCHANGED <<kind, written, parens, done, cache, want, got, created>>

Next == (\E x \in ArgChoices(kind) : AddArg(x)) \/ Finish
        \/ (\E t \in Threads : Acquire(t) \/ Lookup(t) \/ Insert(t) \/ Release(t))

\* parsing any spelling of the text gives the declared meaning
ParseIsMeaning == done => \A ws \in WsChoices : MeaningOfText(FormatterText(kind, written, parens, ws)) = Meaning(kind, written)
\* cache: the formatter a thread holds is the one of its key; no key is created twice; mutual exclusion
GotOwn == \A t \in Threads : got[t] \in {"none", want[t]}
CreatedOnce == Len(created) = Cardinality(Range(created))
Mutex == Cardinality({ t \in Threads : pc[t] \in {"locked", "miss", "have"} }) <= 1
=============================================================================
