"""C05  Plural forms are selected by the locale's CLDR plural rules (parser level, L1)."""
import json
import os

import vp
from checks import loadfam

LOCS = ["en", "fr", "ru", "ar", "pl", "ja", "cy", "ga", "lv", "he"]
COUNTS = ["0", "1", "2", "3", "5", "11", "21", "100", "1000000", "1.5", "-1", "-2"]


def plural_oracle(run, locales, counts):
    """CLDR categories from direct icu_plurals calls (not through leptos_i18n)."""
    binary = vp.cargo_build("drv_parser", ("json",), variant="json")
    wd = os.path.join(run.workdir, "oracle")
    os.makedirs(wd, exist_ok=True)
    inp = os.path.join(wd, "in.ndjson")
    out = os.path.join(wd, "out.ndjson")
    vp.write_ndjson(inp, [{"case": 1, "mode": "plural_oracle", "locales": locales, "counts": counts}])
    vp.run_driver(binary, inp, out, 1)
    ev = [e for e in vp.read_ndjson(out) if e.get("ev") == "PluralOracle"]
    if not ev:
        raise vp.ToolError("no plural oracle output")
    path = os.path.join(wd, "oracle.json")
    json.dump(ev[0]["oracle"], open(path, "w"))
    return path


L2_LOCS = ["en", "fr", "ru", "ar", "pl", "ja", "cy", "ga", "lv", "he", "pt", "pt-PT", "en-GB", "fr-CA"]
L2_COUNTS = list(range(0, 201)) + [1000, 1000000, 1000000001]
FORMS = ["zero", "one", "two", "few", "many", "other"]


def run_l2(run):
    """run-time selection: every locale (incl. regional variants that share a language), counts 0..=200 and large ones, in two
    orders of the locales within one process and from eight threads at once (the plural-rules cache must not leak between locales)"""
    import os
    import probe
    oracle = plural_oracle(run, L2_LOCS, [str(n) for n in L2_COUNTS])
    def S(text):
        return {"t": "str", "s": probe.to_syms(text)}
    entries = [["k_" + f, S("c-" + f)] for f in FORMS] + [["o_ordinal_" + f, S("o-" + f)] for f in FORMS] \
        + [["m_one", S("c-one")], ["m_other", S("c-other")]]
    node = {"t": "map", "e": entries + [["d", {"t": "raw", "v": "null"}]]}
    # key d: all six forms in the default locale only, null everywhere else - the forms are the default's, the rules the rendered locale's
    node_en = {"t": "map", "e": entries + [["d_" + f, S("c-" + f)] for f in FORMS]}
    files = [[l, node_en if l == "en" else node] for l in L2_LOCS]
    rust = r"""
    let counts: Vec<u64> = (0..=200u64).chain([1000u64, 1000000, 1000000001]).collect();
    let fwd: Vec<Locale> = Locale::get_all().to_vec();
    let mut rev = fwd.clone(); rev.reverse();
    for (pass, locs) in [(1, &fwd), (2, &rev)] {
        for l in locs.iter().copied() {
            for &n in &counts {
                let line = |key: &str, out: String| println!("{{\"call\":1,\"pass\":{},\"locale\":\"{}\",\"n\":{},\"key\":\"{}\",\"outcome\":\"Ok\",\"out\":\"{}\"}}", pass, l.as_str(), n, key, esc(&out));
                line("k", td_string!(l, k, count = n).to_string());
                line("o", td_string!(l, o, count = n).to_string());
                line("m", td_string!(l, m, count = n).to_string());
                line("d", td_string!(l, d, count = n).to_string());
                if pass == 1 && n <= 12 {
                    // the count in every numeric type the accessor accepts: the form depends on the number, not on its Rust type
                    macro_rules! typed { ($($t:ty),*) => { $( line(concat!("ty:", stringify!($t)), td_string!(l, k, count = n as $t).to_string()); )* } }
                    typed!(i8, i16, i32, i64, u8, u16, u32, u64, isize, usize);
                }
                if pass == 1 && n <= 20 {
                    line("k", render(td!(l, k, count = move || n)));
                    line("d", render(td!(l, d, count = move || n)));
                    line("tp", leptos_i18n::plurals::td_plural!(l, count = move || n, one => "one", _ => "other").to_string());
                    line("tpo", leptos_i18n::plurals::td_plural_ordinal!(l, count = move || n, one => "one", _ => "other").to_string());
                    // every accepted arm: zero one two few many, and `_` for the rest (a call WITHOUT a `_` arm does not compile even when
                    // it names all six forms: the macro writes a stray comma after the arms - noted in DESIGN.md, outside the listed properties)
                    line("tp6", leptos_i18n::plurals::td_plural!(l, count = move || n, zero => "zero", one => "one", two => "two", few => "few", many => "many", _ => "other").to_string());
                    line("tpo6", leptos_i18n::plurals::td_plural_ordinal!(l, count = move || n, zero => "zero", one => "one", two => "two", few => "few", many => "many", _ => "other").to_string());
                }
            }
        }
    }
    // the plural-rules cache is process-wide: eight threads walk the locales in different rotations at the same time
    let handles: Vec<_> = (0..8usize).map(|t| {
        let fwd = fwd.clone();
        std::thread::spawn(move || {
            let mut lines = Vec::new();
            for i in 0..fwd.len() {
                let l = fwd[(i + t * 3) % fwd.len()];
                for n in 0..=30u64 {
                    lines.push(format!("{{\"call\":1,\"pass\":{},\"locale\":\"{}\",\"n\":{},\"key\":\"k\",\"outcome\":\"Ok\",\"out\":\"{}\"}}", 10 + t, l.as_str(), n, esc(&td_string!(l, k, count = n).to_string())));
                    lines.push(format!("{{\"call\":1,\"pass\":{},\"locale\":\"{}\",\"n\":{},\"key\":\"o\",\"outcome\":\"Ok\",\"out\":\"{}\"}}", 10 + t, l.as_str(), n, esc(&td_string!(l, o, count = n).to_string())));
                }
            }
            lines
        })
    }).collect();
    for h in handles {
        match h.join() {
            Ok(lines) => for ln in lines { println!("{}", ln); },
            Err(_) => println!("{{\"call\":1,\"pass\":99,\"locale\":\"en\",\"n\":0,\"key\":\"k\",\"outcome\":\"Panic\",\"out\":\"\"}}"),
        }
    }
    String::new()"""
    project = {"name": "c05probe", "cfg": {"default": "en", "locales": L2_LOCS}, "files": files,
               "calls": [{"id": 1, "flav": "raw", "rust": rust}]}
    results, log = probe.build_and_run(run, [project], tag="_c05")
    r = results["c05probe"]
    if not r["built"]:
        run.violation("l2-build", "the plural probe does not compile", {"build_log": r["build_log"] or log[-3000:]})
        return 0
    trace = []
    for ev in r["events"]:
        if "key" not in ev:
            continue
        key, cty = (("k", ev["key"][3:]) if ev["key"].startswith("ty:") else (ev["key"], "u64"))
        trace.append({"ev": "Render", "case": 1, "key": key, "cty": cty, "locale": ev["locale"], "tok": str(ev["n"]), "pass": ev["pass"],
                      "outcome": ev["outcome"], "out": probe.to_syms(ev["out"])})
    if len(trace) < 1000:
        raise vp.ToolError("plural probe produced %d events: %s" % (len(trace), r.get("stderr", "")[-300:]))
    trace.append({"ev": "End"})
    wd = os.path.join(run.workdir, "l2")
    os.makedirs(wd, exist_ok=True)
    tpath, cpath = os.path.join(wd, "trace.ndjson"), os.path.join(wd, "cases.ndjson")
    vp.write_ndjson(tpath, trace)
    vp.write_ndjson(cpath, [{"id": 1, "abs": {}}])
    summary, rejects, _ = vp.trace_validate("Trace_Plurals", "Trace_Plurals.cfg", wd, tpath, cpath, env={"ORACLE": oracle}, timeout=3600)
    if summary["consumed"] != summary["events"]:
        raise vp.ToolError("trace spec consumed %s of %s events" % (summary["consumed"], summary["events"]))
    run.traces += 1
    run.events += summary["events"]
    for rj in rejects:
        ev = trace[rj["l"] - 1]
        run.violation("l2;key=%s;type=%s;locale=%s;count=%s;pass=%s" % (ev["key"], ev["cty"], ev["locale"], ev["tok"], ev["pass"]),
                      "run-time form differs from CLDR: rendered %r" % vp.text_of(ev["out"]), {"event": ev})
    return len(trace) - 1


def _key(c, r):
    a = c["abs"]
    if a.get("multi"):
        return "multi-plural-project;%s" % sorted(r["tags"])[0].split(":")[0]
    ms = sorted("%s/%s" % (m["ty"][0], m["form"]) for m in a["members"])
    return "members=%s;baseIsKey=%s;%s" % (",".join(ms), a["baseIsKey"], sorted(r["tags"])[0].split(":")[0])


def check(run):
    cases, res = loadfam.gen_cases(run, "MC_Plurals", "MC_Plurals_%s.cfg" % run.tier)
    if len(cases) < 50:
        raise vp.ToolError("MC_Plurals produced too few cases")
    mut = vp.tlc("MC_Plurals", "MC_Plurals_asimpl.cfg", run.workdir)
    run.notes["spec_mutant_SharedSlot_TRUE_detected"] = (mut["violated"] == "Conforms")
    if mut["violated"] != "Conforms":
        raise vp.ToolError("spec mutant MC_Plurals_asimpl was not detected by TLC")
    oracle = plural_oracle(run, LOCS, COUNTS)
    run.samples = [cases[len(cases) // 2]["abs"], cases[-1]["abs"]]
    loadfam.replay_load(run, cases, "Trace_Plurals", "Trace_Plurals.cfg", build_features=("json", "quote"),
                        variant="json-quote", key_of=_key, trace_env={"ORACLE": oracle})
    loadfam.replay_load(run, loadfam.namespaced(cases[::5]), "Trace_Plurals", "Trace_Plurals.cfg", build_features=("json", "quote"),
                        variant="json-quote", key_of=lambda c, r: "namespaced;" + _key(c, r), tag="_ns", trace_env={"ORACLE": oracle, "NS": "n1"})
    loadfam.replay_suppressed(run, cases, "Trace_Plurals", "Trace_Plurals.cfg", _key, trace_env={"ORACLE": oracle})
    run.notes["l2_render_events"] = run_l2(run)
    run.exhaustive = True
    run.assumptions = ["L2: a 14-locale probe (incl. pt / pt-PT, en / en-GB, fr / fr-CA) renders counts 0..=200, 10^3, 10^6, 10^9+1 through td_string!, td!, td_plural!, "
                       "td_plural_ordinal! in two orders of the locales within one process",
                       "CLDR plural categories are an oracle outside the model: direct icu_plurals calls made by the driver, given to the trace specification as data",
                       "10 locales spanning the CLDR patterns (en fr ru ar pl ja cy ga lv he); literal counts 0 1 2 3 5 11 21 100 1000000 1.5",
                       "parse-time selection through `$t(k, {\"count\": n})`; run-time selection by generated code is the L2 check"]
    return run.finish("every subset of plural forms, cardinal / ordinal / mixed, with and without a colliding normal key; each a 10-locale project; "
                      "non-trivial: member sets the spec merges into a plural or rejects",
                      {"distinct_nontrivial": sum(1 for c in cases if c["abs"].get("multi") or len(c["abs"]["members"]) >= 2)})


def replay(run, path):
    rp = json.load(open(path))["replay"]
    oracle = plural_oracle(run, LOCS, COUNTS)
    loadfam.replay_load(run, [rp["case"]], "Trace_Plurals", "Trace_Plurals.cfg", build_features=("json", "quote"),
                        variant="json-quote", keep_dirs=True, trace_env={"ORACLE": oracle})
    return run.finish("replay of one recorded case")
