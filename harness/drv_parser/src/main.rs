//! drv_parser: replays materialised projects into the real `leptos_i18n_parser` public API
//! and logs a structural projection of what it returned.  One `Load` event per case; a
//! `Begin` marker is flushed first so that a crash (abort, stack overflow, watchdog kill)
//! can be attributed to the case by the supervising script.
//!
//! modes:
//!   load   : ConfigFile::new + parse_locales on a directory
//!   value  : ParsedValue::new on a single string (symbols), no files involved

use std::path::PathBuf;

use drv_common::*;
use leptos_i18n_parser::parse_locales::{self, cfg_file::ConfigFile, ForeignKeysPaths};
use leptos_i18n_parser::parse_locales::parsed_value::ParsedValue;
use leptos_i18n_parser::utils::{Key, KeyPath};
use serde_json::{json, Value};

fn build_name() -> String {
    let fmt = if cfg!(feature = "json") {
        "json"
    } else if cfg!(feature = "yaml") {
        "yaml"
    } else if cfg!(feature = "json5") {
        "json5"
    } else {
        "nofmt"
    };
    let mut s = fmt.to_string();
    if cfg!(feature = "quote") {
        s.push_str("+quote");
    }
    if cfg!(feature = "suppress") {
        s.push_str("+suppress");
    }
    s
}

fn rel(dir: &str, p: &str) -> String {
    p.strip_prefix(dir).map(|s| s.trim_start_matches('/').to_string()).unwrap_or_else(|| p.to_string())
}

fn do_config(dir: &str) -> Value {
    let mut p = PathBuf::from(dir);
    match run_caught(move || ConfigFile::new(&mut p)) {
        Err(msg) => json!({"outcome": "Panic", "panic": msg}),
        Ok(Err(e)) => json!({"outcome": "Err", "errClass": error_class(&e), "errText": e.to_string()}),
        Ok(Ok(cfg)) => {
            let mut inh = serde_json::Map::new();
            for (k, v) in &cfg.extensions {
                inh.insert(k.name.to_string(), json!(v.name.to_string()));
            }
            json!({
                "outcome": "Ok",
                "default": cfg.default.name.to_string(),
                "locales": cfg.locales.iter().map(|k| k.name.to_string()).collect::<Vec<_>>(),
                "namespaces": match &cfg.name_spaces {
                    Some(ns) => json!(ns.iter().map(|k| k.name.to_string()).collect::<Vec<_>>()),
                    None => json!("none"),
                },
                "dir": cfg.locales_dir.to_string(),
                "uri": cfg.translations_uri.clone().unwrap_or_else(|| "none".to_string()),
                "inherits": inh,
            })
        }
    }
}

fn do_load(syms: &Syms, dir: &str, skip_icu: bool) -> Value {
    let d = PathBuf::from(dir);
    let r = run_caught(move || parse_locales::parse_locales(skip_icu, Some(d)));
    match r {
        Err(msg) => json!({"outcome": "Panic", "panic": msg}),
        Ok(Err(e)) => json!({"outcome": "Err", "errClass": error_class(&e), "errText": e.to_string(), "errQuoted": quoted_segments(&e.to_string())}),
        Ok(Ok((bk, warnings, files))) => {
            let proj = run_caught(std::panic::AssertUnwindSafe(|| builders_keys(syms, &bk)));
            let ws = warnings.into_inner();
            let warns: Vec<Value> = ws.iter().map(warning).collect();
            // the text a user is shown (the macro puts it in a `#[deprecated(note = ..)]`)
            let warn_texts: Vec<String> = ws.iter().map(|w| w.to_string()).collect();
            let files: Vec<String> = files.iter().map(|f| rel(dir, f)).collect();
            match proj {
                Ok(units) => json!({"outcome": "Ok", "units": units, "warns": warns, "warnTexts": warn_texts, "files": files}),
                Err(msg) => json!({"outcome": "Panic", "panic": format!("projection: {}", msg)}),
            }
        }
    }
}

fn do_value(syms: &Syms, text: &str) -> Value {
    let t = text.to_string();
    let r = run_caught(move || {
        let key_path = KeyPath::new(None);
        let locale = Key::new("en").unwrap();
        let fks = ForeignKeysPaths::new();
        ParsedValue::new(&t, &key_path, &locale, &fks)
    });
    match r {
        Err(msg) => json!({"outcome": "Panic", "panic": msg}),
        Ok(Err(e)) => json!({"outcome": "Err", "errClass": error_class(&e), "errText": e.to_string()}),
        Ok(Ok(mut v)) => {
            // `reduce` needs resolved foreign keys; only reduce when there is none.
            let has_fk = format!("{:?}", v).contains("ForeignKey(");
            if !has_fk {
                let r = run_caught(std::panic::AssertUnwindSafe(|| v.reduce()));
                if let Err(msg) = r {
                    return json!({"outcome": "Panic", "panic": format!("reduce: {}", msg)});
                }
            }
            let mut indexer = parse_locales::StringIndexer::default();
            v.index_strings(&mut indexer);
            let strings = indexer.get_strings();
            json!({"outcome": "Ok", "tree": tree(syms, &strings, &v), "hasFk": has_fk})
        }
    }
}

/// CLDR oracle, independent of leptos_i18n: direct icu_plurals calls.
fn do_plural_oracle(c: &Value) -> Value {
    use icu_plurals::{PluralRuleType, PluralRules};
    let mut cats = serde_json::Map::new();
    let mut categories = serde_json::Map::new();
    for l in c["locales"].as_array().unwrap() {
        let l = l.as_str().unwrap();
        let loc: icu_locid::Locale = l.parse().unwrap();
        let mut per_type = serde_json::Map::new();
        let mut cat_type = serde_json::Map::new();
        for (tname, ty) in [("cardinal", PluralRuleType::Cardinal), ("ordinal", PluralRuleType::Ordinal)] {
            let rules = PluralRules::try_new(&(&loc).into(), ty).unwrap();
            let mut m = serde_json::Map::new();
            for n in c["counts"].as_array().unwrap() {
                let n = n.as_str().unwrap();
                let fd: fixed_decimal::FixedDecimal = n.parse().unwrap();
                let cat = rules.category_for(&fd);
                m.insert(n.to_string(), json!(form_name(leptos_i18n_parser::parse_locales::plurals::PluralForm::from_icu_category(cat))));
            }
            per_type.insert(tname.to_string(), Value::Object(m));
            let cs: Vec<Value> = rules
                .categories()
                .map(|c| json!(form_name(leptos_i18n_parser::parse_locales::plurals::PluralForm::from_icu_category(c))))
                .collect();
            cat_type.insert(tname.to_string(), Value::Array(cs));
        }
        cats.insert(l.to_string(), Value::Object(per_type));
        categories.insert(l.to_string(), Value::Object(cat_type));
    }
    json!({"cats": cats, "categories": categories})
}

fn main() {
    let args: Vec<String> = std::env::args().collect();
    let mut cases = String::new();
    let mut out = String::new();
    let mut skip = 0usize;
    let mut i = 1;
    while i < args.len() {
        match args[i].as_str() {
            "--cases" => { cases = args[i + 1].clone(); i += 2; }
            "--out" => { out = args[i + 1].clone(); i += 2; }
            "--skip" => { skip = args[i + 1].parse().unwrap(); i += 2; }
            _ => panic!("unknown arg {}", args[i]),
        }
    }
    silence_panics();
    let syms = Syms::load();
    let mut w = Out::create(&out, skip > 0);
    let build = build_name();
    let txt = std::fs::read_to_string(&cases).expect("cases");
    for (n, line) in txt.lines().enumerate() {
        if n < skip || line.trim().is_empty() {
            continue;
        }
        let c: Value = serde_json::from_str(line).expect("case json");
        let id = c["case"].clone();
        w.emit(&json!({"ev": "Begin", "case": id, "n": n}));
        let mode = c["mode"].as_str().unwrap_or("load");
        match mode {
            "load" => {
                drv_common::apply_pre_copy(&c);
                let dir = c["dir"].as_str().unwrap();
                let skip_icu = c["skip_icu"].as_bool().unwrap_or(false);
                let cfg = do_config(dir);
                let load = do_load(&syms, dir, skip_icu);
                w.emit(&json!({"ev": "Load", "case": id, "build": build, "cfg": cfg, "load": load}));
            }
            "value" => {
                let text = syms.text(&c["s"]);
                let r = do_value(&syms, &text);
                w.emit(&json!({"ev": "Value", "case": id, "build": build, "res": r}));
            }
            "value_raw" => {
                // only the library: parse, reduce, drop - nothing of the harness' own recursion (stage markers are flushed)
                let text = syms.text(&c["s"]);
                w.emit(&json!({"ev": "Stage", "case": id, "stage": "start"}));
                let key_path = KeyPath::new(None);
                let locale = Key::new("en").unwrap();
                let fks = ForeignKeysPaths::new();
                let r = ParsedValue::new(&text, &key_path, &locale, &fks);
                w.emit(&json!({"ev": "Stage", "case": id, "stage": "parsed", "ok": r.is_ok()}));
                if let Ok(mut v) = r {
                    v.reduce();
                    w.emit(&json!({"ev": "Stage", "case": id, "stage": "reduced"}));
                    drop(v);
                    w.emit(&json!({"ev": "Stage", "case": id, "stage": "dropped"}));
                }
                w.emit(&json!({"ev": "Value", "case": id, "build": build, "res": {"outcome": "Ok"}}));
            }
            "plural_oracle" => {
                let r = do_plural_oracle(&c);
                w.emit(&json!({"ev": "PluralOracle", "case": id, "oracle": r}));
            }
            _ => panic!("unknown mode"),
        }
    }
    w.emit(&json!({"ev": "End"}));
}
