"""C04  Ranges render the first branch that contains the count (parser level, L1)."""
import json
import random

import vp
from checks import loadfam


def _key(c, r):
    a = c["abs"]
    return "ty=%s;typed=%s;sp=%s;branches=%s;%s" % (a["ty"], a["typed"], json.dumps(a["sp"], sort_keys=True),
                                                    json.dumps(a["branches"], sort_keys=True), sorted(r["tags"])[0])


SUFFIX = {"i8": "i8", "i16": "i16", "i32": "i32", "i64": "i64", "u8": "u8", "u16": "u16", "u32": "u32", "u64": "u64", "f32": "f32", "f64": "f64"}
ANCHOR_TXT = {
    "i8": ["-128", "-1", "0", "1", "5", "127"], "i16": ["-32768", "-1", "0", "1", "5", "32767"],
    "i32": ["-2147483648", "-1", "0", "1", "5", "2147483647"], "i64": ["-9223372036854775808", "-1", "0", "1", "5", "9223372036854775807"],
    "u8": ["0", "1", "2", "5", "254", "255"], "u16": ["0", "1", "2", "5", "65534", "65535"],
    "u32": ["0", "1", "2", "5", "4294967294", "4294967295"], "u64": ["0", "1", "2", "5", "18446744073709551614", "18446744073709551615"],
    "f32": ["-1.5", "0.0", "0.5", "1.0", "2.5", "1000000.5"], "f64": ["-1.5", "0.0", "0.1", "1.0", "2.5", "1000000.5"]}


def run_l2(run, cases, rng, n8, nother):
    """run-time selection by generated code: accepted declarations packed as keys of one project"""
    import os
    import probe
    def has_fallback(a):
        return any(alt["f"] in ("wild", "full") or (alt["f"] == "excl" and alt["lo"] == 0 and alt["hi"] == 0)
                   for b in a["branches"] for alt in b["alts"])
    # without a fallback the generated `match` is rejected by rustc unless the branches are exhaustive: the probe only packs
    # declarations that have one (a declaration without fallback is still decided at L1)
    acc = [c for c in cases if len(c["files"][0][1]["e"]) > 1 and c["abs"]["typed"] and has_fallback(c["abs"])]
    eight = [c for c in acc if c["abs"]["ty"] in ("i8", "u8")]
    other = [c for c in acc if c["abs"]["ty"] not in ("i8", "u8")]
    chosen = (eight if len(eight) <= n8 else rng.sample(eight, n8)) + (other if len(other) <= nother else rng.sample(other, nother))
    # anchors of the spec must be the literals used here (checked against the case text)
    CHUNK = 72      # declarations per generated package: one huge main() makes rustc super-linear
    projects, metas, itemss = [], [], []
    for k in range(0, len(chosen), CHUNK):
        entries, items, calls, meta = [], [], [], {}
        for j, c in enumerate(chosen[k:k + CHUNK]):
            a = c["abs"]
            name = "r%04d" % (j + 1)
            decl = [e for e in c["files"][0][1]["e"] if e[0] == "r"][0][1]
            entries.append([name, decl])
            items.append(a)
            ty = a["ty"]
            for flav in ("td_string", "td"):
                if ty in ("i8", "u8"):
                    cid = len(calls) + 1
                    if flav == "td_string":
                        rust = "for n in %s::MIN..=%s::MAX { println!(\"{{\\\"call\\\":%d,\\\"n\\\":{},\\\"outcome\\\":\\\"Ok\\\",\\\"out\\\":\\\"{}\\\"}}\", n, esc(&td_string!(Locale::en, %s, count = n).to_string())); } String::new()" % (ty, ty, cid, name)
                    else:
                        rust = "for n in %s::MIN..=%s::MAX { println!(\"{{\\\"call\\\":%d,\\\"n\\\":{},\\\"outcome\\\":\\\"Ok\\\",\\\"out\\\":\\\"{}\\\"}}\", n, esc(&render(td!(Locale::en, %s, count = move || n)))); } String::new()" % (ty, ty, cid, name)
                    calls.append({"id": cid, "flav": "raw", "rust": rust})
                    meta[cid] = {"j": j + 1, "mode": "int", "flav": flav}
                else:
                    for idx, txt in enumerate(ANCHOR_TXT[ty]):
                        cid = len(calls) + 1
                        lit = ("(%s%s)" % (txt, SUFFIX[ty])) if txt.startswith("-") else (txt + SUFFIX[ty])
                        if flav == "td_string":
                            rust = "td_string!(Locale::en, %s, count = %s).to_string()" % (name, lit)
                        else:
                            rust = "render(td!(Locale::en, %s, count = move || %s))" % (name, lit)
                        calls.append({"id": cid, "flav": "raw", "rust": rust})
                        meta[cid] = {"j": j + 1, "mode": "anchor", "idx": idx + 1, "flav": flav}
            if ty in ("f32", "f64"):
                # the representable neighbours of every anchor: half-step positions of the model
                A = ANCHOR_TXT[ty]
                near = [(2 * i + 1, "(%s%s).next_up()" % (A[i - 1], ty)) for i in range(1, 7)] + [(2 * i - 1, "(%s%s).next_down()" % (A[i - 1], ty)) for i in range(1, 7)]
                for flav in ("td_string", "td"):
                    for pos, expr in near:
                        cid = len(calls) + 1
                        call = ("td_string!(Locale::en, %s, count = n).to_string()" % name) if flav == "td_string" else ("render(td!(Locale::en, %s, count = move || n))" % name)
                        rust = ("let n = %s; println!(\"{{\\\"call\\\":%d,\\\"shown\\\":\\\"{}\\\",\\\"outcome\\\":\\\"Ok\\\",\\\"out\\\":\\\"{}\\\"}}\", n, esc(&%s)); String::new()" % (expr, cid, call))
                        calls.append({"id": cid, "flav": "raw", "rust": rust})
                        meta[cid] = {"j": j + 1, "mode": "near", "idx": pos, "flav": flav}
        projects.append({"name": "c04probe%02d" % (len(projects) + 1), "cfg": {"default": "en", "locales": ["en"]},
                         "files": [["en", {"t": "map", "e": entries}]], "calls": calls})
        metas.append(meta)
        itemss.append(items)
    results, log = probe.build_and_run(run, projects, tag="_c04")
    trace = []
    for k, project in enumerate(projects):
        r = results[project["name"]]
        if not r["built"]:
            run.violation("l2-build", "a project made of accepted range declarations does not compile", {"build_log": r["build_log"] or log[-3000:]})
            return 0
        meta = metas[k]
        for ev in r["events"]:
            m = meta[ev["call"]]
            if m["mode"] == "int":
                if "n" not in ev:
                    continue      # the wrapper line of the loop
                trace.append({"ev": "Render", "case": k + 1, "j": m["j"], "mode": "int", "n": ev["n"], "idx": 0, "shown": [], "flav": m["flav"], "outcome": ev["outcome"], "out": probe.to_syms(ev["out"])})
            elif m["mode"] == "near":
                if "shown" not in ev:
                    continue
                trace.append({"ev": "Render", "case": k + 1, "j": m["j"], "mode": "near", "n": 0, "idx": m["idx"], "shown": probe.to_syms(ev["shown"]), "flav": m["flav"], "outcome": ev["outcome"], "out": probe.to_syms(ev["out"])})
            else:
                trace.append({"ev": "Render", "case": k + 1, "j": m["j"], "mode": "anchor", "n": 0, "idx": m["idx"], "shown": [], "flav": m["flav"], "outcome": ev["outcome"], "out": probe.to_syms(ev["out"])})
    trace.append({"ev": "End"})
    wd = os.path.join(run.workdir, "l2")
    os.makedirs(wd, exist_ok=True)
    tpath, cpath = os.path.join(wd, "trace.ndjson"), os.path.join(wd, "cases.ndjson")
    vp.write_ndjson(tpath, trace)
    vp.write_ndjson(cpath, [{"id": k + 1, "abs": {"items": items}} for k, items in enumerate(itemss)])
    summary, rejects, _ = vp.trace_validate("Trace_Ranges", "Trace_Ranges.cfg", wd, tpath, cpath, timeout=3600)
    if summary["consumed"] != summary["events"]:
        raise vp.ToolError("trace spec consumed %s of %s events" % (summary["consumed"], summary["events"]))
    run.traces += 1
    run.events += summary["events"]
    for rj in rejects:
        ev = trace[rj["l"] - 1]
        a = itemss[ev["case"] - 1][ev["j"] - 1]
        run.violation("l2;%s;ty=%s;branches=%s;count=%s" % (ev["flav"], a["ty"], json.dumps(a["branches"], sort_keys=True), ev["n"] if ev["mode"] == "int" else ("anchor%d" % ev["idx"] if ev["mode"] == "anchor" else "half-step%d" % ev["idx"])),
                      "run-time selection differs: rendered %r" % vp.text_of(ev["out"]), {"event": ev, "decl": a})
    return len(trace) - 1


def run_manybranch(run):
    """scale in the number of branches of one range (EitherOf nesting of the arms)"""
    import os
    import probe
    cases, _ = loadfam.gen_cases(run, "MC_ManyBranch", "MC_ManyBranch_%s.cfg" % run.tier, workers=1)
    c = cases[0]
    calls = []
    for cid, flav in ((1, "td_string"), (2, "td")):
        expr = "td_string!(Locale::en, r, count = n).to_string()" if flav == "td_string" else "render(td!(Locale::en, r, count = move || n))"
        calls.append({"id": cid, "flav": "raw", "rust": "for n in u8::MIN..=u8::MAX { println!(\"{{\\\"call\\\":%d,\\\"n\\\":{},\\\"outcome\\\":\\\"Ok\\\",\\\"out\\\":\\\"{}\\\"}}\", n, esc(&%s)); } String::new()" % (cid, expr)})
    project = {"name": "c04many", "cfg": c["cfg"], "files": c["files"], "calls": calls}
    results, log = probe.build_and_run(run, [project], tag="_c04many")
    r = results["c04many"]
    if not r["built"]:
        run.violation("l2-build;many-branches;%d" % c["abs"]["n"], "a range with %d branches does not compile" % c["abs"]["n"], {"build_log": r["build_log"] or log[-3000:]})
        return 0
    trace = [{"ev": "RenderManyBranch", "case": 1, "n": ev["n"], "flav": "td_string" if ev["call"] == 1 else "td", "outcome": ev["outcome"], "out": probe.to_syms(ev["out"])}
             for ev in r["events"] if "n" in ev]
    if len(trace) != 512:
        raise vp.ToolError("c04many printed %d of 512 results (rc=%s, %s)" % (len(trace), r.get("rc"), r.get("stderr", "")[-300:]))
    trace.append({"ev": "End"})
    wd = os.path.join(run.workdir, "l2many")
    os.makedirs(wd, exist_ok=True)
    tpath, cpath = os.path.join(wd, "trace.ndjson"), os.path.join(wd, "cases.ndjson")
    vp.write_ndjson(tpath, trace)
    vp.write_ndjson(cpath, [{"id": 1, "abs": c["abs"]}])
    summary, rejects, _ = vp.trace_validate("Trace_Ranges", "Trace_Ranges.cfg", wd, tpath, cpath)
    if summary["consumed"] != summary["events"]:
        raise vp.ToolError("trace spec consumed %s of %s events" % (summary["consumed"], summary["events"]))
    run.traces += 1
    run.events += summary["events"]
    for rj in rejects:
        ev = trace[rj["l"] - 1]
        run.violation("l2;many-branches;%s;count=%d" % (ev["flav"], ev["n"]), "rendered %r" % vp.text_of(ev["out"]), {"event": ev, "branches": c["abs"]["n"]})
    return len(trace) - 1


def run_manyalts(run):
    """scale in the number of alternatives of one branch (`a | b | c ...` and the list form): overlapping, contained, repeated and
    bridging alternatives; every i8 / u8 value through td_string! and td!"""
    import os
    import probe
    cases, _ = loadfam.gen_cases(run, "MC_ManyAlts", "MC_ManyAlts.cfg", workers=1)
    c = cases[0]
    calls = []
    order = []
    for key, ty in (("ua", "u8"), ("ia", "i8")):
        for syn, suffix in (("pipe", "p"), ("list", "l")):
            for flav in ("td_string", "td"):
                cid = len(calls) + 1
                order.append((key, syn, flav))
                k = key + suffix
                expr = ("td_string!(Locale::en, %s, count = n).to_string()" % k) if flav == "td_string" else ("render(td!(Locale::en, %s, count = move || n))" % k)
                calls.append({"id": cid, "flav": "raw",
                              "rust": "for n in %s::MIN..=%s::MAX { println!(\"{{\\\"call\\\":%d,\\\"n\\\":{},\\\"outcome\\\":\\\"Ok\\\",\\\"out\\\":\\\"{}\\\"}}\", n, esc(&%s)); } String::new()" % (ty, ty, cid, expr)})
    project = {"name": "c04alts", "cfg": c["cfg"], "files": c["files"], "calls": calls}
    results, log = probe.build_and_run(run, [project], tag="_c04alts")
    r = results["c04alts"]
    if not r["built"]:
        run.violation("l2-build;many-alternatives", "the many-alternatives project does not compile", {"build_log": r["build_log"] or log[-3000:]})
        return 0
    trace = [{"ev": "RenderManyAlts", "case": 1, "n": ev["n"], "key": order[ev["call"] - 1][0], "syntax": order[ev["call"] - 1][1],
              "flav": order[ev["call"] - 1][2], "outcome": ev["outcome"], "out": probe.to_syms(ev["out"])}
             for ev in r["events"] if "n" in ev]
    if len(trace) != 8 * 256:
        raise vp.ToolError("c04alts printed %d of %d results (rc=%s, %s)" % (len(trace), 8 * 256, r.get("rc"), r.get("stderr", "")[-300:]))
    trace.append({"ev": "End"})
    wd = os.path.join(run.workdir, "l2alts")
    os.makedirs(wd, exist_ok=True)
    tpath, cpath = os.path.join(wd, "trace.ndjson"), os.path.join(wd, "cases.ndjson")
    vp.write_ndjson(tpath, trace)
    vp.write_ndjson(cpath, [{"id": 1, "abs": c["abs"]}])
    summary, rejects, _ = vp.trace_validate("Trace_ManyAlts", "Trace_ManyAlts.cfg", wd, tpath, cpath)
    if summary["consumed"] != summary["events"]:
        raise vp.ToolError("trace spec consumed %s of %s events" % (summary["consumed"], summary["events"]))
    run.traces += 1
    run.events += summary["events"]
    for rj in rejects:
        ev = trace[rj["l"] - 1]
        run.violation("l2;many-alternatives;%s;%s;%s;count=%d" % (ev["key"], ev["syntax"], ev["flav"], ev["n"]), "rendered %r" % vp.text_of(ev["out"]), {"event": ev})
    return len(trace) - 1


def check(run):
    quick = run.tier == "quick"
    cases, res = loadfam.gen_cases(run, "MC_Ranges", "MC_Ranges_%s.cfg" % run.tier, timeout=7200)
    if len(cases) < 100:
        raise vp.ToolError("MC_Ranges produced too few cases")
    rng = random.Random(run.seed)
    cap = 4000 if quick else 60000
    chosen = cases if len(cases) <= cap else rng.sample(cases, cap)
    run.samples = [chosen[0]["abs"], chosen[len(chosen) // 2]["abs"]]
    loadfam.replay_load(run, chosen, "Trace_Ranges", "Trace_Ranges.cfg", build_features=("json", "quote"),
                        variant="json-quote", key_of=_key)
    loadfam.replay_suppressed(run, chosen, "Trace_Ranges", "Trace_Ranges.cfg", _key, step=8)
    run.notes["l2_render_events"] = run_l2(run, cases, rng, 12 if quick else 120, 60 if quick else 800)
    run.notes["l2_many_branch_events"] = run_manybranch(run)
    run.notes["l2_many_alternatives_events"] = run_manyalts(run)
    run.exhaustive = len(chosen) == len(cases)
    run.notes["declarations_generated"] = len(cases)
    run.assumptions = ["counts and bounds range over 6 anchors per numeric type (type minimum, neighbours of 0, type maximum; floats: exactly representable values)",
                       "L1: parse-time selection through `$t(r, {\"count\": n})` keys; L2: a sample of accepted declarations is compiled with load_locales!() and td_string! / td! are executed "
                       "for EVERY value of i8 / u8 and for the 6 anchors of the other types",
                       "a declaration the documentation rejects must fail to load; empty ranges and `..MIN` may be rejected"]
    return run.finish("every declaration of the bounded universe (spec forms x fallback variants x spellings x numeric types), "
                      "seeded sample above the cap; non-trivial: declarations the spec classifies as accept with at least one literal count",
                      {"distinct_nontrivial": sum(1 for c in chosen if len(c["files"][0][1]["e"]) > 1)})


def replay(run, path):
    rp = json.load(open(path))["replay"]
    loadfam.replay_load(run, [rp["case"]], "Trace_Ranges", "Trace_Ranges.cfg", build_features=("json", "quote"),
                        variant="json-quote", keep_dirs=True)
    return run.finish("replay of one recorded case")
