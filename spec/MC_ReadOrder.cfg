CONSTANTS
  Contents <- MCContents
  Formats <- MCFormats
SPECIFICATION MCSpec
INVARIANTS MapsAreContent DiagsAreContent
PROPERTY Termination
CHECK_DEADLOCK FALSE
