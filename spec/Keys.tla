-------------------------------- MODULE Keys --------------------------------
(* The merge walk of the implementation (one action per recursion frame),    *)
(* checked against the declarative diagnostics of KeysOps.                   *)
EXTENDS KeysOps

CONSTANTS DefTrees,   \* set of default-locale trees
          LocTrees    \* set of trees a non-default locale may have

VARIABLES dtree, ltree,   \* the input
          silent,         \* the locale has an inherits entry
          work,           \* set of pending frames: paths of group levels still to merge
          warns,          \* sequence (order = emission order) of warnings
          err             \* <<>> or the path at which merging failed
vars == <<dtree, ltree, silent, work, warns, err>>

Init ==
    /\ dtree \in DefTrees /\ ltree \in LocTrees /\ silent \in BOOLEAN
    /\ work = {<<>>} /\ warns = <<>> /\ err = <<>>

L == "fr"

\* one `Locale::merge` frame at group path p: walks the default keys of that level, then the
\* reverse (surplus) comparison; frames for sub-groups present on both sides become pending.
\* A group the locale does not have (absent or null) is merged against a dummy locale that
\* has every key of the default level as explicit default: it produces no diagnostics.
Frame(p) ==
    /\ p \in work /\ err = <<>>
    /\ LET d == NodeAt(dtree, p).c
           t == NodeAt(ltree, p).c
           miss == SortedSeq({ k \in DOMAIN d : k \notin DOMAIN t })
           bad  == { k \in DOMAIN d \cap DOMAIN t :
                        d[k].t # "null" /\ t[k].t # "null" /\ IsGroup(d[k]) # IsGroup(t[k]) }
           sur  == SortedSeq(DOMAIN t \ DOMAIN d)
           sub  == { k \in DOMAIN d \cap DOMAIN t : IsGroup(d[k]) /\ IsGroup(t[k]) } IN
       IF bad # {}
       THEN /\ err' = p \o <<CHOOSE k \in bad : TRUE>>
            /\ work' = {} /\ UNCHANGED warns
       ELSE /\ warns' = warns
                        \o (IF silent THEN <<>> ELSE [i \in DOMAIN miss |-> Warn("missing", L, p \o <<miss[i]>>)])
                        \o [i \in DOMAIN sur |-> Warn("surplus", L, p \o <<sur[i]>>)]
            /\ work' = (work \ {p}) \cup { p \o <<k>> : k \in sub }
            /\ UNCHANGED err
    /\ UNCHANGED <<dtree, ltree, silent>>

Next == \E p \in work : Frame(p)
Done == work = {}

\* ---- properties ------------------------------------------------------------
\* exactly the expected diagnostics, each once (multiset equality)
WarnsExact ==
    (Done /\ err = <<>>) =>
        /\ Range(warns) = ExpectedWarns(dtree, ltree, L, silent, FALSE)
        /\ Len(warns) = Cardinality(Range(warns))
ErrIffMismatch == Done => ((err # <<>>) <=> (MismatchAt(dtree, ltree, <<>>) # {}))
NoneForDefault == \A i \in DOMAIN warns : warns[i].locale # "en"
Termination == <>Done
=============================================================================
