CONSTANTS
  LocaleSets <- MCLocaleSets
  Bases <- MCBases
  Tables <- MCTables
  Rests <- MCRests
  MaxSwitches = 2
  Words = {"english", "frog", "about", "a-propos", "users", "x", "42"}
SPECIFICATION MCSpec
INVARIANTS ReadsBack MatchedAsCurrent EmitCases
PROPERTIES RoundTrip KeepsShape RouteStable
VIEW NoTrail
CHECK_DEADLOCK FALSE
