CONSTANTS
  MaxArgs = 0
  WsChoices <- MCWs
  Threads = {"t1", "t2", "t3"}
  CacheKeys = {"k1", "k2"}
SPECIFICATION MCSpec
INVARIANTS GotOwn CreatedOnce Mutex
CONSTRAINT CacheOnly
CHECK_DEADLOCK FALSE
