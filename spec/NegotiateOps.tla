----------------------------- MODULE NegotiateOps -----------------------------
(* C12  Locale negotiation honours the user's order of preference.            *)
(* A language identifier is [l, s, r, v] (language, script, region, variant); *)
(* "" = subtag absent.  Requests are tokens; Parse maps a token to its        *)
(* identifier, unparseable tokens are ignored.                                *)
EXTENDS Common

Id(l, s, r, v) == [l |-> l, s |-> s, r |-> r, v |-> v]
Universe == [ en |-> Id("en","","",""), enUS |-> Id("en","","US",""), enGB |-> Id("en","","GB",""),
              enLatn |-> Id("en","Latn","",""), enLatnUS |-> Id("en","Latn","US",""),
              fr |-> Id("fr","","",""), frFR |-> Id("fr","","FR",""), frCA |-> Id("fr","","CA",""),
              de |-> Id("de","","",""), deDE |-> Id("de","","DE",""), deDE1996 |-> Id("de","","DE","1996"), zhHantTW |-> Id("zh","Hant","TW","") ]
Tag == [ en |-> "en", enUS |-> "en-US", enGB |-> "en-GB", enLatn |-> "en-Latn", enLatnUS |-> "en-Latn-US",
         fr |-> "fr", frFR |-> "fr-FR", frCA |-> "fr-CA", de |-> "de", deDE |-> "de-DE", deDE1996 |-> "de-DE-1996", zhHantTW |-> "zh-Hant-TW",
         bad |-> "!!" ]
Names == DOMAIN Universe
Valid(tok) == tok \in Names

\* a is the request exactly
Exact(a, r) == Universe[a] = Universe[r]
\* a is the request or a less specific form of it (its absent subtags match anything)
Covers(a, r) == LET x == Universe[a]  y == Universe[r] IN
                /\ x.l = y.l
                /\ (x.s = "" \/ x.s = y.s) /\ (x.r = "" \/ x.r = y.r) /\ (x.v = "" \/ x.v = y.v)
Specificity(a) == LET x == Universe[a] IN
                  (IF x.s = "" THEN 0 ELSE 1) + (IF x.r = "" THEN 0 ELSE 1) + (IF x.v = "" THEN 0 ELSE 1)

\* the property
Honours(req, avail, default, result) ==
    LET J == { j \in DOMAIN req : Valid(req[j]) /\ \E a \in avail : Covers(a, req[j]) } IN
    IF J = {} THEN result = default
    ELSE LET i == CHOOSE j \in J : \A k \in J : j <= k IN
         /\ result \in avail
         /\ Covers(result, req[i])
         /\ ((\E a \in avail : Exact(a, req[i])) => Exact(result, req[i]))
=============================================================================
