------------------------------- MODULE FkCases -------------------------------
(* Spelling of abstract projects with foreign keys as translation files, the  *)
(* MC graph universe, and the hand-written families beyond it.                *)
EXTENDS Subst

\* ---- spelling -------------------------------------------------------------------------
\* optional blanks of a reference: $t(<po>path<pc>,<ac>{<ao>"n"<co>:<cc>value<as>,<as>...<ao>}<pe>)
\* (a configuration may substitute LooseSp for FkSp: the same references, written with blanks wherever JSON and the documented
\* syntax allow them)
TightSp == [po |-> <<>>, pc |-> <<>>, ac |-> <<"SP">>, ao |-> <<>>, co |-> <<>>, cc |-> <<"SP">>, as |-> <<"SP">>, pe |-> <<>>]
LooseSp == [po |-> <<"SP">>, pc |-> <<"SP">>, ac |-> <<"SP", "SP">>, ao |-> <<"SP">>, co |-> <<"SP">>, cc |-> <<"TAB">>, as |-> <<"SP", "SP">>, pe |-> <<"SP">>]
NoSp == [po |-> <<>>, pc |-> <<>>, ac |-> <<>>, ao |-> <<>>, co |-> <<>>, cc |-> <<>>, as |-> <<>>, pe |-> <<>>]
FkSp == TightSp
RECURSIVE UnparseX(_), ArgsJson(_)
ArgsJson(args) ==
    IF args = <<>> THEN <<>>
    ELSE LET h == Head(args) IN
         <<"QUOT">> \o h.nsym \o <<"QUOT">> \o FkSp.co \o <<"COLON">> \o FkSp.cc
         \o (IF h.a.k = "num" THEN h.a.sym ELSE <<"QUOT">> \o UnparseX(h.a.c) \o <<"QUOT">>)
         \o (IF Len(args) > 1 THEN <<"COMMA">> \o FkSp.as ELSE <<>>) \o ArgsJson(Tail(args))

UnparseX(v) ==
    IF v = <<>> THEN <<>>
    ELSE LET h == Head(v) IN
         (IF h.k = "text" THEN h.s
          ELSE IF h.k = "var" THEN <<"LB", "LB", "SP">> \o h.n
                                   \o (IF "kind" \in DOMAIN h THEN <<"COMMA", "SP">> \o FormatterText(h.kind, h.written, h.written # <<>>, [n |-> <<>>, c |-> <<"SP">>, s |-> <<>>]) ELSE <<>>)
                                   \o <<"SP", "RB", "RB">>
          ELSE IF h.k = "comp" THEN <<"LT">> \o h.n \o <<"GT">> \o UnparseX(h.c) \o <<"LT", "SL">> \o h.n \o <<"GT">>
          ELSE <<"DOL", "t", "LP">> \o FkSp.po \o h.tosym \o FkSp.pc
               \o (IF h.args = <<>> THEN <<>> ELSE <<"COMMA">> \o FkSp.ac \o <<"LB">> \o FkSp.ao \o ArgsJson(h.args) \o FkSp.ao \o <<"RB">> \o FkSp.pe) \o <<"RP">>)
         \o UnparseX(Tail(v))

\* entry -> file entries (a plural entry is written as its suffixed member keys)
FormOrder == <<"zero", "one", "two", "few", "many", "other">>
FormSymX == [zero |-> <<"z","e","r","o">>, one |-> <<"o","n","e">>, two |-> <<"t","w","o">>, few |-> <<"f","e","w">>,
             many |-> <<"m","a","n","y">>, other |-> <<"o","t","h","e","r">>]
TySymX == [i8 |-> <<"i","8">>, i16 |-> <<"i","1","6">>, i32 |-> <<"i","3","2">>, i64 |-> <<"i","6","4">>,
           u8 |-> <<"u","8">>, u16 |-> <<"u","1","6">>, u32 |-> <<"u","3","2">>, u64 |-> <<"u","6","4">>,
           f32 |-> <<"f","3","2">>, f64 |-> <<"f","6","4">>]

RangeNode(e) ==
    SeqNode(<<StrNode(TySymX[e.ty])>>
            \o [j \in DOMAIN e.b |-> SeqNode(<<StrNode(UnparseX(e.b[j].v))>>
                                              \o [a \in DOMAIN e.b[j].alts |-> StrNode(SpecText(e.b[j].alts[a], e.ty))])])

EntryNodes(name, e) ==
    IF e.k = "null" THEN << <<name, NullNode>> >>
    ELSE IF e.k = "group" THEN << <<name, MapNode(<< <<"s", StrNode(<<"x">>)>> >>)>> >>
    ELSE IF e.k = "val" THEN << <<name, StrNode(UnparseX(e.v))>> >>
    ELSE IF e.k = "lit" THEN << <<name, RawSym(e.sym)>> >>
    ELSE IF e.k = "ranges" THEN << <<name, RangeNode(e)>> >>
    ELSE LET fs == SelectSeq(FormOrder, LAMBDA f : f \in DOMAIN e.forms) IN
         [j \in DOMAIN fs |-> <<name \o (IF e.ty = "ordinal" THEN "_ordinal_" ELSE "_") \o fs[j], StrNode(UnparseX(e.forms[fs[j]]))>>]

\* names: function key id -> key name as written in the file (ids are Str of symbols; names are plain strings)
LocaleFile(P, l, names) ==
    LET ks == SortedSeq(DOMAIN P.vals[l]) IN
    MapNode(Cat([j \in DOMAIN ks |-> EntryNodes(names[ks[j]], P.vals[l][ks[j]])]))

ProjectCase(family, P, names, extra) ==
    [family |-> family,
     abs |-> [P |-> P, names |-> names, extra |-> extra],
     cfg |-> [default |-> P.def, locales |-> P.locs,
              inherits |-> LET E == SelectSeq(P.locs, LAMBDA l : l \in DOMAIN P.inh) IN [j \in DOMAIN E |-> <<E[j], P.inh[E[j]]>>]],
     files |-> [j \in DOMAIN P.locs |-> <<P.locs[j], LocaleFile(P, P.locs[j], names)>>]]

\* ---- the MC graph universe: three keys, foreign keys only at top level --------------------------
X == <<"x">>
Y == <<"y">>
ArgChoices(full) == IF full THEN { <<>>, <<ArgP(X, <<Text(<<"A">>)>>)>>, <<ArgP(X, <<Var(Y)>>)>>, <<ArgP(Y, <<Text(<<"B">>)>>)>> }
                    ELSE { <<>>, <<ArgP(X, <<Text(<<"A">>)>>)>> }
KeySyms == { <<"a">>, <<"b">>, <<"c">> }
Shapes(full) ==
    { <<Text(<<"t">>)>>, <<Text(<<"t">>), Var(X)>>, <<Comp(<<"b">>, <<Var(X)>>)>> }
    \cup { <<Text(<<"p">>), Fk(t, a), Var(X)>> : t \in KeySyms, a \in ArgChoices(full) }
    \cup { <<Fk(t, a)>> : t \in KeySyms, a \in ArgChoices(full) }
GraphUniverse(full) == [ {"a", "b", "c"} -> Shapes(full) ]

GraphCase(v) ==
    ProjectCase("fk-graph",
                [def |-> "en", locs |-> <<"en">>, inh |-> << >>, vals |-> [en |-> [k \in DOMAIN v |-> [k |-> "val", v |-> v[k]]]]],
                [k \in DOMAIN v |-> k], "none")

\* ---- families beyond the MC universe ---------------------------------------------------------------
T(s) == Text(s)
V(n) == Var(n)
Cnt == <<"c","o","u","n","t">>
NumI32(i) == ArgN(Cnt, Anchor["i32"][i], Disp["i32"][i], i, "")
NumTok(sym, tok) == ArgN(Cnt, sym, sym, 0, tok)
Val(v) == [k |-> "val", v |-> v]

\* F2: range and plural targets, literal / renamed counts, arguments inside branches, chains
RangeR == [k |-> "ranges", ty |-> "i32", ck |-> Cnt,
           b |-> << [alts |-> <<Exact(3)>>,   v |-> <<T(<<"z","COLON">>), V(Cnt), V(X)>>],
                    [alts |-> <<Incl(4, 5)>>, v |-> <<T(<<"f","COLON">>), V(Cnt)>>],
                    [alts |-> <<Wild>>,       v |-> <<T(<<"o","COLON">>), V(Cnt), Comp(<<"b">>, <<V(X)>>)>>] >>]
PluralP == [k |-> "plurals", ty |-> "cardinal", ck |-> Cnt,
            forms |-> [one |-> <<T(<<"o","n","e","SP">>), V(Cnt), T(<<"SP">>), V(X)>>, other |-> <<T(<<"m","a","n","y","SP">>), V(Cnt)>>]]
PluralQ == [k |-> "plurals", ty |-> "ordinal", ck |-> Cnt,
            forms |-> [one |-> <<T(<<"s","t">>)>>, two |-> <<T(<<"n","d">>)>>, few |-> <<T(<<"r","d">>)>>, other |-> <<T(<<"t","h">>)>>]]
M1 == <<"m">>
F2Keys ==
    [r  |-> RangeR, p |-> PluralP, q |-> PluralQ,
     b0 |-> Val(<<T(<<"p","r","e","SP">>), Fk(<<"r">>, <<>>), T(<<"SP","p","o","s","t">>)>>),
     r0 |-> Val(<<Fk(<<"r">>, <<>>)>>),
     r1 |-> Val(<<Fk(<<"r">>, <<NumI32(3)>>)>>),
     r2 |-> Val(<<T(<<"LSB">>), Fk(<<"r">>, <<NumI32(5), ArgP(X, <<T(<<"A">>)>>)>>), T(<<"RSB">>)>>),
     r3 |-> Val(<<Fk(<<"r">>, <<ArgP(Cnt, <<V(M1)>>)>>)>>),
     r4 |-> Val(<<Fk(<<"r">>, <<ArgP(X, <<T(<<"A">>)>>)>>)>>),
     r5 |-> Val(<<Fk(<<"b","0">>, <<NumI32(4)>>)>>),
     r6 |-> Val(<<Fk(<<"r">>, <<NumI32(6), ArgP(X, <<V(Y)>>)>>)>>),
     p0 |-> Val(<<Fk(<<"p">>, <<>>)>>),
     p1 |-> Val(<<Fk(<<"p">>, <<NumTok(<<"1">>, "1")>>)>>),
     p2 |-> Val(<<Fk(<<"p">>, <<NumTok(<<"0">>, "0"), ArgP(X, <<T(<<"A">>)>>)>>)>>),
     p3 |-> Val(<<Fk(<<"p">>, <<ArgP(Cnt, <<T(<<"SP">>), V(M1), T(<<"SP">>)>>), ArgP(X, <<T(<<"A">>)>>)>>)>>),
     p4 |-> Val(<<Fk(<<"p">>, <<NumTok(<<"1","DOT","5">>, "1.5")>>)>>),
     q2 |-> Val(<<T(<<"2">>), Fk(<<"q">>, <<NumTok(<<"2">>, "2")>>)>>),
     q3 |-> Val(<<T(<<"1","1">>), Fk(<<"q">>, <<NumTok(<<"1","1">>, "11")>>)>>)]
F2Names == [k \in DOMAIN F2Keys |-> k]
F2Case == ProjectCase("fk-range-plural",
                      [def |-> "en", locs |-> <<"en", "fr", "ru">>, inh |-> << >>,
                       vals |-> [l \in {"en", "fr", "ru"} |-> F2Keys]], F2Names, "none")

\* F3: the target is defined / null / absent in the referring locale, under several inherits maps
LocTag == [en |-> <<"e">>, fr |-> <<"f">>, de |-> <<"d">>, es |-> <<"s">>]
\* the target itself refers to a third key whose text differs per locale: a defaulted target must bring along the text of
\* the locale it comes from
AEntry(l, p) == IF p = "null" THEN [k |-> "null"] ELSE Val(<<T(LocTag[l] \o <<"a","SP">>), V(X), T(<<"SP">>), Fk(<<"c">>, <<>>)>>)
CEntry(l) == Val(<<T(LocTag[l] \o <<"c">>)>>)
BEntry(l) == Val(<<T(LocTag[l] \o <<"b","COLON">>), Fk(<<"a">>, <<ArgP(X, <<T(<<"A">>)>>)>>)>>)
F3Vals(pf, pd) ==
    [l \in {"en", "fr", "de"} |->
        LET p == IF l = "en" THEN "def" ELSE IF l = "fr" THEN pf ELSE pd IN
        (IF p = "abs" THEN << >> ELSE ("a" :> AEntry(l, p))) @@ ("b" :> BEntry(l)) @@ ("c" :> CEntry(l))]
InhSeq3 == << << >>, ("de" :> "fr"), ("fr" :> "de"), ("de" :> "fr") @@ ("fr" :> "de"), ("de" :> "en") >>
\* (families are SEQUENCES built over sets of homogeneous index tuples: a set of cases would make TLC compare file nodes of
\* different shapes while normalising it)
F3Idx == { <<pf, pd, t>> : pf \in P3, pd \in P3, t \in DOMAIN InhSeq3 }
F3Cases == LET I == SetToSeq(F3Idx) IN
    [j \in DOMAIN I |-> ProjectCase("fk-fallback",
                  [def |-> "en", locs |-> <<"en", "fr", "de">>, inh |-> InhSeq3[I[j][3]], vals |-> F3Vals(I[j][1], I[j][2])],
                  [k \in {"a", "b", "c"} |-> k],
                  IF I[j][1] = "abs" \/ I[j][2] = "abs" THEN "may" ELSE "none")]

\* F4: four locales - an inherits loop (fr <-> de) entered from a locale outside it (es -> fr), chains, and the loop alone;
\* the walk that looks for a defaulted target must end whatever the shape
F4Vals(pf, pd, pe) ==
    [l \in {"en", "fr", "de", "es"} |->
        LET p == CASE l = "en" -> "def" [] l = "fr" -> pf [] l = "de" -> pd [] OTHER -> pe IN
        (IF p = "abs" THEN << >> ELSE ("a" :> AEntry(l, p))) @@ ("b" :> BEntry(l)) @@ ("c" :> CEntry(l))]
InhSeq4 == << ("es" :> "fr") @@ ("fr" :> "de") @@ ("de" :> "fr"),
              ("es" :> "fr") @@ ("fr" :> "de"),
              ("es" :> "de") @@ ("fr" :> "de") @@ ("de" :> "fr"),
              ("fr" :> "de") @@ ("de" :> "es") @@ ("es" :> "fr") >>
F4Idx == { <<pf, pd, pe, t>> : pf \in {"null", "abs"}, pd \in P3, pe \in P3, t \in DOMAIN InhSeq4 }
F4Cases == LET I == SetToSeq(F4Idx) IN
    [j \in DOMAIN I |-> ProjectCase("fk-fallback",
                  [def |-> "en", locs |-> <<"en", "fr", "de", "es">>, inh |-> InhSeq4[I[j][4]], vals |-> F4Vals(I[j][1], I[j][2], I[j][3])],
                  [k \in {"a", "b", "c"} |-> k],
                  IF I[j][1] = "abs" \/ I[j][2] = "abs" \/ I[j][3] = "abs" THEN "may" ELSE "none")]

\* a plural target that is null in fr: the literal count must be classified with fr's rules when fr is rendered
F3Plural ==
    ProjectCase("fk-plural-null",
                [def |-> "en", locs |-> <<"en", "fr">>, inh |-> << >>,
                 vals |-> [en |-> [p |-> PluralP, c |-> Val(<<Fk(<<"p">>, <<NumTok(<<"0">>, "0")>>)>>)],
                           fr |-> [p |-> [k |-> "null"], c |-> Val(<<Fk(<<"p">>, <<NumTok(<<"0">>, "0")>>)>>)]]],
                [k \in {"p", "c"} |-> k], "none")

\* F5: references that must be rejected, with an error naming a key of the chain
F5Vals == << [a |-> Val(<<Fk(<<"z">>, <<>>)>>), b |-> Val(<<T(<<"x">>)>>)],
             [a |-> Val(<<Fk(<<"g">>, <<>>)>>), g |-> [k |-> "group"]],
             [a |-> Val(<<Fk(<<"b">>, <<>>)>>), b |-> Val(<<T(<<"x">>), Fk(<<"a">>, <<>>)>>)],
             [a |-> Val(<<Fk(<<"b">>, <<ArgP(X, <<Fk(<<"a">>, <<>>)>>)>>)>>), b |-> Val(<<V(X)>>)],
             [a |-> Val(<<Fk(<<"r">>, <<ArgP(Cnt, <<T(<<"n","o">>)>>)>>)>>), r |-> RangeR] >>
F5Cases == [j \in DOMAIN F5Vals |->
    ProjectCase("fk-error", [def |-> "en", locs |-> <<"en">>, inh |-> << >>, vals |-> [en |-> F5Vals[j]]], [k \in DOMAIN F5Vals[j] |-> k], "none")]

\* nested reference inside an argument, and a three-level chain with arguments at each level
F6Keys ==
    [a |-> Val(<<T(<<"a","COLON">>), V(X), V(Y)>>),
     u |-> Val(<<T(<<"U">>)>>),
     b |-> Val(<<Fk(<<"a">>, <<ArgP(X, <<Fk(<<"u">>, <<>>)>>)>>), V(X)>>),
     c |-> Val(<<Fk(<<"b">>, <<ArgP(Y, <<T(<<"Y">>)>>), ArgP(X, <<T(<<"X">>)>>)>>)>>),
     d |-> Val(<<Fk(<<"c">>, <<>>), T(<<"SP","PIPE","SP">>), Fk(<<"a">>, <<ArgP(X, <<V(Y)>>), ArgP(Y, <<V(X)>>)>>)>>)]
F6Case == ProjectCase("fk-nested", [def |-> "en", locs |-> <<"en">>, inh |-> << >>, vals |-> [en |-> F6Keys]],
                      [k \in DOMAIN F6Keys |-> k], "none")

\* F8: literals that are not strings.  Number / boolean keys as targets of references, and numbers as arguments for plain
\* variables - first in the value, after a variable, first inside a component, after text - so that they meet the text around them
LitE(ty, sym, disp) == [k |-> "lit", ty |-> ty, sym |-> sym, disp |-> disp]
NumArg(nsym, sym) == ArgN(nsym, sym, sym, 0, "")
NVar == <<"n">>
F8Keys ==
    [n1 |-> LitE("Unsigned", <<"1","0">>, <<"1","0">>), i1 |-> LitE("Signed", <<"DASH","3">>, <<"DASH","3">>),
     f1 |-> LitE("Float", <<"1","DOT","5">>, <<"1","DOT","5">>), b1 |-> LitE("Bool", <<"t","r","u","e">>, <<"t","r","u","e">>),
     la |-> Val(<<Fk(<<"n","1">>, <<>>), T(<<"SP","i","t","e","m","s">>)>>),
     lb |-> Val(<<T(<<"a","t","SP","m","o","s","t","SP">>), Fk(<<"n","1">>, <<>>)>>),
     lc |-> Val(<<V(X), Fk(<<"i","1">>, <<>>), T(<<"SP","l","e","f","t">>)>>),
     ld |-> Val(<<Comp(<<"b">>, <<V(X)>>), Fk(<<"f","1">>, <<>>), T(<<"SP","x">>)>>),
     le |-> Val(<<Fk(<<"b","1">>, <<>>), T(<<"SP","i","s">>), Fk(<<"n","1">>, <<>>), Fk(<<"b","1">>, <<>>)>>),
     t1 |-> Val(<<V(NVar), T(<<"SP","l","e","f","t">>)>>),
     t2 |-> Val(<<T(<<"p">>), Comp(<<"b">>, <<V(NVar), T(<<"SP","i","n">>)>>), V(NVar), V(NVar), T(<<"SP","e","n","d">>)>>),
     ta |-> Val(<<Fk(<<"t","1">>, <<NumArg(NVar, <<"2">>)>>)>>),
     tb |-> Val(<<Fk(<<"t","2">>, <<NumArg(NVar, <<"2">>)>>), T(<<"SP","t","a","i","l">>)>>),
     tc |-> Val(<<V(X), Fk(<<"t","1">>, <<NumArg(NVar, <<"DASH","7">>)>>)>>),
     td |-> Val(<<Fk(<<"t","2">>, <<NumArg(NVar, <<"1","DOT","5">>)>>)>>)]
F8Case == ProjectCase("fk-literals", [def |-> "en", locs |-> <<"en", "fr">>, inh |-> << >>, vals |-> [l \in {"en", "fr"} |-> F8Keys]],
                      [k \in DOMAIN F8Keys |-> k], "none")

\* F9: formatted variables behind references.  The target declares {{ v, formatter(args) }}; the referrer reaches it bare, with
\* another variable bound, through a chain, inside a component / range branch / plural form of the target: the formatter recorded
\* for the referrer's variable is the declared one
WA(a, v) == [a |-> a, v |-> v]
F9Keys ==
    [pn |-> Val(<<VarF(<<"v">>, "number", << WA(<<"g","r","o","u","p","i","n","g","US","s","t","r","a","t","e","g","y">>, <<"a","l","w","a","y","s">>) >>)>>),
     pc |-> Val(<<V(X), T(<<"COLON","SP">>), VarF(<<"v">>, "currency", << WA(<<"w","i","d","t","h">>, <<"n","a","r","r","o","w">>), WA(<<"c","u","r","r","e","n","c","y","US","c","o","d","e">>, <<"E","U","R">>) >>)>>),
     pd |-> Val(<<Comp(<<"b">>, <<VarF(<<"v">>, "date", << WA(<<"d","a","t","e","US","l","e","n","g","t","h">>, <<"l","o","n","g">>) >>)>>)>>),
     pr |-> [k |-> "ranges", ty |-> "i32", ck |-> Cnt,
             b |-> << [alts |-> <<Exact(3)>>, v |-> <<T(<<"z">>)>>], [alts |-> <<Wild>>, v |-> <<VarF(<<"v">>, "list", <<>>), T(<<"SP">>), V(Cnt)>>] >>],
     pp |-> [k |-> "plurals", ty |-> "cardinal", ck |-> Cnt,
             forms |-> [one |-> <<VarF(<<"v">>, "time", <<>>)>>, other |-> <<V(Cnt), T(<<"SP">>), VarF(<<"v">>, "datetime", <<>>)>>]],
     ra |-> Val(<<T(<<"T","COLON","SP">>), Fk(<<"p","n">>, <<>>)>>),
     rb |-> Val(<<Fk(<<"p","c">>, <<ArgP(X, <<T(<<"A">>)>>)>>)>>),
     rc |-> Val(<<Fk(<<"r","a">>, <<>>), T(<<"SP">>), Fk(<<"p","d">>, <<>>)>>),
     rd |-> Val(<<Fk(<<"p","r">>, <<>>)>>),
     re |-> Val(<<Fk(<<"p","p">>, <<ArgP(Cnt, <<V(NVar)>>)>>)>>),
     rf |-> Val(<<Fk(<<"p","r">>, <<NumI32(4)>>)>>)]
F9Case == ProjectCase("fk-formatters", [def |-> "en", locs |-> <<"en", "fr">>, inh |-> << >>, vals |-> [l \in {"en", "fr"} |-> F9Keys]],
                      [k \in DOMAIN F9Keys |-> k], "none")

\* F7: arm shapes.  Every range target whose three arms are drawn from {literal, variable, count, component around the variable}
\* (the second locale holds the rotated triple, so the signature is a union), every plural target whose two forms are drawn from
\* the same shapes, and for each target six referrers: bare; followed / preceded by the referrer's own {{ x }}; a component using
\* x before and the variable after; x bound by the reference (the referrer's own x stays free); count renamed.
ArmTriples == "pairs"          \* "pairs": 16 triples covering every (first, second) pair; "all": 64 (overridden by the thorough cfg)
Shapes4 == << <<T(<<"l">>)>>, <<V(X)>>, <<V(Cnt)>>, <<Comp(<<"b">>, <<V(X)>>)>> >>
D(n) == ToString(n)
Triples == IF ArmTriples = "all" THEN { <<a, b, c>> : a \in 1..4, b \in 1..4, c \in 1..4 }
           ELSE { <<a, b, ((a + b) % 4) + 1>> : a \in 1..4, b \in 1..4 }
PairsF == { <<a, b>> : a \in 1..4, b \in 1..4 }
RangeT(t) == [k |-> "ranges", ty |-> "i32", ck |-> Cnt,
              b |-> << [alts |-> <<Exact(3)>>,   v |-> <<T(<<"z","COLON">>)>> \o Shapes4[t[1]]],
                       [alts |-> <<Incl(4, 5)>>, v |-> <<T(<<"f","COLON">>)>> \o Shapes4[t[2]]],
                       [alts |-> <<Wild>>,       v |-> <<T(<<"o","COLON">>)>> \o Shapes4[t[3]]] >>]
PluralT(t) == [k |-> "plurals", ty |-> "cardinal", ck |-> Cnt,
               forms |-> [one |-> <<T(<<"o","n","e","SP">>)>> \o Shapes4[t[1]], other |-> <<T(<<"m","a","n","y","SP">>)>> \o Shapes4[t[2]]]]
RSym(t) == <<"r", D(t[1]), D(t[2]), D(t[3])>>
PSymT(t) == <<"p", D(t[1]), D(t[2])>>
RefShape(n, tgt) ==
    CASE n = 1 -> <<Fk(tgt, <<>>)>>
      [] n = 2 -> <<Fk(tgt, <<>>), T(<<"SP">>), V(X)>>
      [] n = 3 -> <<V(X), T(<<"SP">>), Fk(tgt, <<>>)>>
      [] n = 4 -> <<Comp(<<"b">>, <<V(X)>>), T(<<"SP">>), Fk(tgt, <<>>), T(<<"SP">>), V(X)>>
      [] n = 5 -> <<Fk(tgt, <<ArgP(X, <<T(<<"A">>)>>)>>), T(<<"SP">>), V(X)>>
      [] OTHER -> <<Fk(tgt, <<ArgP(Cnt, <<V(M1)>>)>>), T(<<"SP">>), V(X)>>
Rot3(t) == <<t[2], t[3], t[1]>>
Rot2(t) == <<t[2], t[1]>>
F7Vals(l) ==
    LET tr(t) == IF l = "en" THEN t ELSE Rot3(t)
        tp(t) == IF l = "en" THEN t ELSE Rot2(t)
        targets == [ id \in { Str(RSym(t)) : t \in Triples } |-> RangeT(tr(CHOOSE t \in Triples : Str(RSym(t)) = id)) ]
        ptargets == [ id \in { Str(PSymT(t)) : t \in PairsF } |-> PluralT(tp(CHOOSE t \in PairsF : Str(PSymT(t)) = id)) ]
        refs == [ id \in { Str(<<"u", D(n)>> \o RSym(t)) : n \in 1..6, t \in Triples } |->
                    LET c == CHOOSE c \in (1..6) \X Triples : Str(<<"u", D(c[1])>> \o RSym(c[2])) = id IN Val(RefShape(c[1], RSym(c[2]))) ]
        prefs == [ id \in { Str(<<"v", D(n)>> \o PSymT(t)) : n \in 1..6, t \in PairsF } |->
                    LET c == CHOOSE c \in (1..6) \X PairsF : Str(<<"v", D(c[1])>> \o PSymT(c[2])) = id IN Val(RefShape(c[1], PSymT(c[2]))) ] IN
    targets @@ ptargets @@ refs @@ prefs
F7Case == LET vals == [l \in {"en", "fr"} |-> F7Vals(l)] IN
          ProjectCase("fk-arm-shapes", [def |-> "en", locs |-> <<"en", "fr">>, inh |-> << >>, vals |-> vals],
                      [k \in DOMAIN vals["en"] |-> k], "none")

\* F10: references INSIDE plural forms and range arms (cardinal and ordinal; the forms are merged into one key before the references
\* are resolved, so the place a reference was written at has moved), and references to those plurals with a literal count.
WSym == <<"w">>
F10Keys(l) ==
    [w  |-> Val(<<T(LocTag[l] \o <<"w">>)>>),
     pf |-> [k |-> "plurals", ty |-> "cardinal", ck |-> Cnt,
             forms |-> [one |-> <<T(<<"o","n","e","SP">>), Fk(WSym, <<>>)>>, other |-> <<Fk(WSym, <<>>), T(<<"SP","m","a","n","y","SP">>), V(Cnt)>>]],
     qf |-> [k |-> "plurals", ty |-> "ordinal", ck |-> Cnt,
             forms |-> [one |-> <<Fk(WSym, <<>>), T(<<"s","t">>)>>, two |-> <<T(<<"n","d">>)>>, few |-> <<T(<<"r","d","SP">>), Fk(WSym, <<>>)>>,
                        other |-> <<T(<<"t","h">>)>>]],
     rf |-> [k |-> "ranges", ty |-> "i32", ck |-> Cnt,
             b |-> << [alts |-> <<Exact(3)>>, v |-> <<T(<<"z","COLON">>), Fk(WSym, <<>>)>>],
                      [alts |-> <<Wild>>,     v |-> <<Fk(WSym, <<>>), T(<<"COLON">>), V(Cnt)>>] >>],
     p1 |-> Val(<<Fk(<<"p","f">>, <<NumTok(<<"1">>, "1")>>)>>),
     p5 |-> Val(<<Fk(<<"p","f">>, <<NumTok(<<"2">>, "2")>>)>>),
     q1 |-> Val(<<Fk(<<"q","f">>, <<NumTok(<<"1">>, "1")>>)>>),
     q2 |-> Val(<<Fk(<<"q","f">>, <<NumTok(<<"2">>, "2")>>)>>),
     q3 |-> Val(<<Fk(<<"q","f">>, <<NumTok(<<"0">>, "0")>>)>>),
     q4 |-> Val(<<T(<<"1","1">>), Fk(<<"q","f">>, <<NumTok(<<"1","1">>, "11")>>)>>),
     r3 |-> Val(<<Fk(<<"r","f">>, <<NumI32(3)>>)>>),
     r5 |-> Val(<<Fk(<<"r","f">>, <<NumI32(5)>>)>>),
     pm |-> Val(<<Fk(<<"p","f">>, <<ArgP(Cnt, <<V(M1)>>)>>)>>)]
F10Case == ProjectCase("fk-inside-forms", [def |-> "en", locs |-> <<"en", "fr">>, inh |-> << >>, vals |-> [l \in {"en", "fr"} |-> F10Keys(l)]],
                       [k \in DOMAIN F10Keys("en") |-> k], "none")

\* F11: broken references at the END of a chain whose head sorts first (a1 -> b1 -> missing key / subkey group): the project is
\* rejected and the error names the key that holds the broken reference (b1), not the head of the chain
F11Keys(bad) == [a1 |-> Val(<<T(<<"h","SP">>), Fk(<<"b","1">>, <<>>)>>),
                 b1 |-> Val(<<Fk(bad, <<>>), T(<<"SP","t">>)>>),
                 g  |-> [k |-> "group"],
                 z1 |-> Val(<<T(<<"z">>)>>)]
F11Case(bad) == ProjectCase("fk-broken-chain", [def |-> "en", locs |-> <<"en", "fr">>, inh |-> << >>, vals |-> [l \in {"en", "fr"} |-> F11Keys(bad)]],
                            [k \in {"a1", "b1", "g", "z1"} |-> k], "none")
F11Cases == << F11Case(<<"n","o","p","e">>), F11Case(<<"g">>) >>

Families == <<F2Case, F3Plural, F6Case, F7Case, F8Case, F9Case, F10Case>> \o F3Cases \o F4Cases \o F5Cases \o F11Cases
=============================================================================
