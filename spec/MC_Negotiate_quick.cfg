CONSTANTS
  Requests <- MCRequests
  Avails <- MCAvails
  Defaults <- MCDefaults
  SortScope = "per_request"
  MaxReq = 2
  MaxAvail = 3
SPECIFICATION MCSpec
INVARIANTS HonoursPreference AlwaysSupported EmitCases EmitReqs
PROPERTY Termination
CHECK_DEADLOCK FALSE
