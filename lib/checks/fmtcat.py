"""Catalogue of formatter keys of the drv_runtime project (the single source of the formatter *texts*; what a text
means is decided by the specification, module FormatterOps)."""

CATALOGUE = {
    "f_n1": "number",
    "f_n2": "number(grouping_strategy: never)",
    "f_n3": "number(grouping_strategy: always)",
    "f_n4": "number(grouping_strategy: min2)",
    "f_n5": "number( grouping_strategy : always )",
    "f_n6": "number(grouping_strategy: zzzz)",
    "f_n7": "number(foo: bar; grouping_strategy: never)",
    "f_n8": "number(grouping_strategy: zzzz; grouping_strategy: min2)",
    "f_d1": "date",
    "f_d2": "date(date_length: full)",
    "f_d3": "date(date_length: long)",
    "f_d4": "date(date_length: medium)",
    "f_d5": "date(date_length: short)",
    "f_d6": "date(time_length: long)",
    "f_t1": "time",
    "f_t2": "time(time_length: medium)",
    "f_t3": "time(time_length: short)",
    "f_t4": "time( time_length:medium ;)",
    "f_dt1": "datetime",
    "f_dt2": "datetime(date_length: long; time_length: medium)",
    "f_dt3": "datetime(time_length: medium)",
    "f_dt4": "datetime(date_length: short)",
    "f_dt5": "datetime(time_length: medium; date_length: full)",
    "f_l1": "list",
    "f_l2": "list(list_type: and)",
    "f_l3": "list(list_type: or)",
    "f_l4": "list(list_type: and; list_style: short)",
    "f_l5": "list(list_style: narrow)",
    "f_l6": "list(list_type: or; list_style: narrow)",
    "f_c1": "currency",
    "f_c2": "currency(width: narrow; currency_code: EUR)",
    "f_c3": "currency(currency_code: EUR)",
    "f_c4": "currency(width: narrow)",
    "f_c5": "currency(currency_code: JPY; width: short)",
}

# keys that reach a formatter key through a reference: `"f_r1": "$t(f_n3)"`, with text around it or through a chain; what they
# render is the target's formatter (the text recorded here is the target's, the file holds the reference)
REFS = {
    # (targets whose value type also implements Display: if the formatter were lost on the way the project would still compile
    # and render the raw value - an observable difference rather than a build failure of the driver)
    "f_r1": ("f_n3", "$t(f_n3)"),
    "f_r2": ("f_c2", "$t(f_c2)"),
    "f_r3": ("f_c4", "$t(f_r3b)"),        # chain: f_r3 -> f_r3b -> f_c4
    "f_r3b": ("f_c4", "$t(f_c4)"),
    "f_r4": ("f_n2", "$t(f_n2)"),
}
for _k, (_t, _v) in REFS.items():
    CATALOGUE[_k] = CATALOGUE[_t]

# formatter keys written in the DEFAULT locale only (explicitly null elsewhere): rendered for another locale they take the text from
# the default locale but are formatted for the locale being rendered
DEFAULTED = {
    "fd_n3": "number(grouping_strategy: always)",
    "fd_d2": "date(date_length: full)",
    "fd_t2": "time(time_length: medium)",
    "fd_dt2": "datetime(date_length: long; time_length: medium)",
    "fd_l3": "list(list_type: or)",
    "fd_c2": "currency(width: narrow; currency_code: EUR)",
}
CATALOGUE.update(DEFAULTED)

FMT_LOCALES = ["en", "fr", "de", "ar", "zh-Hant-TW"]

# keys that are also rendered for other VALUES than the fixed one (value universe: spec/FormatterValues.tla)
VALKEYS = {"number": ["f_n1", "f_n3"], "currency": ["f_c2"], "list": ["f_l1", "f_l3", "f_l4"], "date": ["f_d2"], "time": ["f_t2"],
           "datetime": ["f_dt2"]}
NUM_TYPES = ["u8", "u16", "u32", "u64", "u128", "usize", "i8", "i16", "i32", "i64", "i128", "isize", "f32", "f64", "dec"]
