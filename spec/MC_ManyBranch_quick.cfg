CONSTANTS N = 24
SPECIFICATION Spec
CHECK_DEADLOCK FALSE
