CONSTANTS
  MemberSets <- MCMemberSets
  SharedSlot = FALSE
SPECIFICATION MCSpec
INVARIANTS Conforms EmitCases
PROPERTY Termination
CHECK_DEADLOCK FALSE
