CONSTANTS N = 45
SPECIFICATION Spec
CHECK_DEADLOCK FALSE
