CONSTANTS
  Locs = {"en", "fr", "de"}
  Default = "en"
  HeaderSpellings = {"tight", "spaced", "q", "star"}
  HeaderToks = {"fr"}
  MaxCtx = 1000
  MaxViews = 1000
  MaxAccs = 1000
SPECIFICATION TraceSpec
POSTCONDITION Post
CHECK_DEADLOCK FALSE
