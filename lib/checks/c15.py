"""C15  Initial locale resolution follows the documented precedence."""
import json
import random

import vp
from checks import runtimefam, ctxfam


def check(run):
    res = vp.tlc("MC_Context", "MC_Context_c15_%s.cfg" % run.tier, run.workdir, workers=8, timeout=7200)
    vp.tlc_ok(res, "MC_Context c15")
    run.add_mc("MC_Context/c15", res)
    behaviours = [json.loads(c)["abs"]["hist"] for c in sorted(set(res["tagged"].get("CASE", [])))]
    # a two-step behaviour replays its one-step prefix: keep maximal behaviours and main-only ones without an extension
    two = [h for h in behaviours if len(h) == 2]
    firsts = {json.dumps(h[0], sort_keys=True) for h in two}
    one = [h for h in behaviours if len(h) == 1 and json.dumps(h[0], sort_keys=True) not in firsts]
    chosen = two + one
    if len(chosen) < 100:
        raise vp.ToolError("too few behaviours")
    run.samples = [chosen[0], chosen[len(chosen) // 2]]
    # the trace spec needs the header tokens, the driver the tags: header tokens are mapped through TokText
    rows = ctxfam.rows_for(chosen)
    runtimefam.replay_rows(run, rows, [{} for _ in rows], "Trace_Context", "Trace_Context.cfg", "_c15", key_of=ctxfam.key_of)
    run.exhaustive = True
    run.assumptions = ["main context: cookies enabled or not x default / custom cookie name x cookie {absent, valid(l), invalid} x Accept-Language lists of <= 2 tokens; "
                       "then one sub-context x {no parent in context, parent} x cookie x initial locale x header",
                       "only the `ssr` resolution path runs natively; the hydrate (<html lang>) and csr (navigator.languages) branches need a browser and are not covered",
                       "Accept-Language is given without optional whitespace (leptos-use does not trim list items)"]
    return run.finish("every creation-parameter combination of the bounded space, replayed on real contexts (init_i18n_context_with_options, "
                      "init_i18n_subcontext_with_options, resolve_locale_with_options); non-trivial: every behaviour", {"distinct_nontrivial": len(chosen)})


def replay(run, path):
    raise vp.ToolError("replay: re-run `bin/check C15`; the operation and its arguments are in the replay file")
