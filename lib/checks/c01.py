"""C01  Rendered text is exactly what the translation source says (parser level, L1)."""
import json
import random

import vp
from checks import loadfam


def value_cases(run, values, per_value):
    """values: CASE records of MC_Value.  Returns value-mode cases (one per chosen spelling)."""
    rng = random.Random(run.seed)
    out = []
    for v in values:
        sp = v["spellings"]
        plain = min(sp, key=len)
        chosen = [plain]
        rest = [s for s in sp if s != plain]
        if per_value is None or len(rest) <= per_value:
            chosen += rest
        else:
            chosen += rng.sample(rest, per_value)
        for s in chosen:
            out.append({"mode": "value", "abs": {"ast": v["abs"]["ast"]}, "s": s})
    return out


def project_cases(run, values, per_project=150):
    """Packs values as keys of two-locale projects: key j holds value j in en and value N+1-j in fr."""
    rng = random.Random(run.seed + 1)
    out = []
    for start in range(0, len(values), per_project):
        chunk = values[start:start + per_project]
        n = len(chunk)
        names = ["k%04d" % (j + 1) for j in range(n)]
        spell = [rng.choice(v["spellings"]) for v in chunk]
        en = {"t": "map", "e": [[names[j], {"t": "str", "s": spell[j]}] for j in range(n)]}
        fr = {"t": "map", "e": [[names[j], {"t": "str", "s": spell[n - 1 - j]}] for j in range(n)]}
        out.append({"family": "value-project",
                    "abs": {"names": names, "values": [v["abs"]["ast"] for v in chunk]},
                    "cfg": {"default": "en", "locales": ["en", "fr"]},
                    "files": [["en", en], ["fr", fr]]})
    return out


def _key(c, r):
    if c.get("mode") == "value":
        return "value:" + " ".join(c["s"]) + ";" + sorted(r["tags"])[0]
    return "project:" + vp.fingerprint(c["abs"]) + ";" + sorted(r["tags"])[0]


def check(run):
    quick = run.tier == "quick"
    cfg = "MC_Value_quick.cfg" if quick else "MC_Value_thorough.cfg"
    values, res = loadfam.gen_cases(run, "MC_Value", cfg, timeout=7200)
    if len(values) < 100:
        raise vp.ToolError("MC_Value produced too few values")
    vcases = value_cases(run, values, 2 if quick else 12)
    pcases = project_cases(run, values if quick else values[:30000])
    run.samples = [{"ast": vcases[len(vcases) // 3]["abs"]["ast"], "spelling": vcases[len(vcases) // 3]["s"]},
                   {"ast": vcases[-1]["abs"]["ast"], "spelling": vcases[-1]["s"]}]
    loadfam.replay_load(run, vcases, "Trace_Value", "Trace_Value.cfg", build_features=("json", "quote"),
                        variant="json-quote", key_of=_key, tag="_values")
    loadfam.replay_load(run, pcases, "Trace_Value", "Trace_Value.cfg", build_features=("json", "quote"),
                        variant="json-quote", key_of=_key, tag="_projects")
    run.exhaustive = True
    run.notes["values_generated"] = len(values)
    run.notes["spellings_replayed"] = len(vcases)
    run.assumptions = ["every value of the documented grammar with at most MaxTokens pieces / MaxDepth nesting over 2 text atoms, 2 variables, 2 component names (same-name nesting included)",
                       "optional whitespace (none, SP, SP SP, NBSP, TAB) at 7 positions: one position at a time and everywhere; a seeded sample of spellings per value in the quick tier",
                       "parser level only (tree, variables, components, string-table text per literal); rendering by generated code is the L2 check"]
    return run.finish("all well-formed values within the bounds, each under several whitespace spellings, through ParsedValue::new and "
                      "through parse_locales (two-locale projects); non-trivial: values containing a variable or a component",
                      {"distinct_nontrivial": sum(1 for v in values if any(p["k"] != "text" for p in v["abs"]["ast"]))})


def replay(run, path):
    rp = json.load(open(path))["replay"]
    loadfam.replay_load(run, [rp["case"]], "Trace_Value", "Trace_Value.cfg", build_features=("json", "quote"),
                        variant="json-quote", keep_dirs=True)
    return run.finish("replay of one recorded case")
