//! drv_router: replays URLs and locale switches into the router's path functions
//! (through the `verif_hooks` feature of leptos_i18n_router) and logs what they return.
#![allow(non_camel_case_types)]

use std::collections::HashMap;
use std::str::FromStr;

use leptos::prelude::*;
use leptos_i18n::Locale;
use leptos_i18n_router::verif_hooks;
use leptos_router::PathSegment;
use serde_json::{json, Value};

mod r1 {
    leptos_i18n::declare_locales! { path: leptos_i18n, default: "en", locales: ["en", "fr"], en: { k: "x" }, fr: { k: "x" }, }
}
mod r2 {
    leptos_i18n::declare_locales! { path: leptos_i18n, default: "en", locales: ["en", "en-US", "fr"], en: { k: "x" }, en_US: { k: "x" }, fr: { k: "x" }, }
}
mod r3 {
    leptos_i18n::declare_locales! { path: leptos_i18n, default: "fr", locales: ["fr", "fra", "en"], fr: { k: "x" }, fra: { k: "x" }, en: { k: "x" }, }
}

fn split(s: &str) -> Vec<String> {
    s.split('/').map(|x| x.to_string()).collect()
}

fn segments_for<L: Locale>(c: &Value) -> HashMap<L, Vec<Vec<PathSegment>>> {
    let names = c["names"].as_object().unwrap();
    let mut out = HashMap::new();
    for (lkey, lname) in names {
        let l = L::from_str(lname.as_str().unwrap()).ok().expect("locale");
        let mut routes = vec![];
        for route in c["table"].as_array().unwrap() {
            let mut segs = vec![];
            for d in route.as_array().unwrap() {
                let seg = match d["t"].as_str().unwrap() {
                    "static" => PathSegment::Static(d["s"].as_str().unwrap().to_string().into()),
                    "loc" => PathSegment::Static(c["loc_names"][d["key"].as_str().unwrap()][lkey].as_str().unwrap().to_string().into()),
                    "param" => PathSegment::Param("p".into()),
                    "opt" => PathSegment::OptionalParam("o".into()),
                    "splat" => PathSegment::Splat("s".into()),
                    other => panic!("descriptor {}", other),
                };
                segs.push(seg);
            }
            routes.push(segs);
        }
        out.insert(l, routes);
    }
    out
}

fn run_case<L: Locale>(c: &Value, w: &mut Out) {
    let id = c["case"].clone();
    let names = c["names"].as_object().unwrap();
    for base in c["base_texts"].as_array().unwrap() {
        let base = base.as_str().unwrap();
        let start = c["start_path"].as_str().unwrap();
        let r = run_caught(|| verif_hooks::locale_from_path::<L>(start, base));
        let res = match r {
            Ok(Some(l)) => l.as_str().to_string(),
            Ok(None) => "none".to_string(),
            Err(_) => "PANIC".to_string(),
        };
        w.emit(&json!({"ev": "Url", "case": id, "op": "read", "base_text": base, "path": start, "path_segs": split(start), "res": res}));
        for seq in c["switch_seqs"].as_array().unwrap() {
            let mut path = start.to_string();
            let mut cur = names[c["cur"].as_str().unwrap()].as_str().unwrap().to_string();
            for (k, to) in seq.as_array().unwrap().iter().enumerate() {
                let to_name = names[to.as_str().unwrap()].as_str().unwrap().to_string();
                let from_l = L::from_str(&cur).ok().expect("from");
                let to_l = L::from_str(&to_name).ok().expect("to");
                let segs = segments_for::<L>(c);
                let (p2, b2) = (path.clone(), base.to_string());
                let r = run_caught(move || {
                    let owner = Owner::new();
                    owner.with(|| verif_hooks::new_path::<L>(&p2, "a=1&l=en", "frag-fr", &b2, to_l, Some(from_l), segs))
                });
                let out = match r {
                    Ok(s) => s,
                    Err(msg) => {
                        w.emit(&json!({"ev": "Url", "case": id, "op": "switch", "base_text": base, "step": k + 1, "from": cur, "to": to_name,
                                       "in_path": path, "in_segs": split(&path), "outcome": "Panic", "panic": msg}));
                        break;
                    }
                };
                let (before_hash, hash) = match out.split_once('#') {
                    Some((a, b)) => (a.to_string(), b.to_string()),
                    None => (out.clone(), "none".to_string()),
                };
                let (p, search) = match before_hash.split_once('?') {
                    Some((a, b)) => (a.to_string(), b.to_string()),
                    None => (before_hash.clone(), "none".to_string()),
                };
                w.emit(&json!({"ev": "Url", "case": id, "op": "switch", "base_text": base, "step": k + 1, "from": cur, "to": to_name,
                               "in_path": path, "in_segs": split(&path), "outcome": "Ok", "out": out, "out_segs": split(&p),
                               "out_search": search, "out_hash": hash}));
                path = p;
                cur = to_name;
            }
        }
    }
}

// ---- the real I18nRoute, built natively: N + 1 route families, matching and route generation ------------
fn loc_name(key: &str, locale: &str) -> &'static str {
    match (key, locale) {
        ("about", "en") => "about",
        ("about", "fr") => "a-propos",
        ("about", "en-US") => "about-us",
        ("about", "fra") => "apropos",
        ("users", "en") => "users",
        ("users", "fr") => "utilisateurs",
        ("users", "en-US") => "users",
        ("users", "fra") => "usagers",
        _ => "unknown-localized-segment",
    }
}

fn seg_json(segs: &[PathSegment]) -> Value {
    Value::Array(
        segs.iter()
            .map(|s| match s {
                PathSegment::Unit => json!({"t": "unit", "s": ""}),
                PathSegment::Static(x) => json!({"t": "static", "s": x.to_string()}),
                PathSegment::Param(x) => json!({"t": "param", "s": x.to_string()}),
                PathSegment::OptionalParam(x) => json!({"t": "opt", "s": x.to_string()}),
                PathSegment::Splat(x) => json!({"t": "splat", "s": x.to_string()}),
            })
            .collect(),
    )
}

fn observe_routes<R>(defs: &leptos_router::RouteDefs<R>, c: &Value, w: &mut Out)
where
    R: leptos_router::MatchNestedRoutes,
{
    use leptos_router::{MatchInterface, MatchParams};
    let id = c["case"].clone();
    let routes: Vec<Value> = {
        let (_, gen) = defs.generate_routes();
        gen.into_iter().map(|g| seg_json(&g.segments)).collect()
    };
    w.emit(&json!({"ev": "Routes", "case": id, "routes": routes}));
    for (k, p) in c["paths"].as_array().unwrap().iter().enumerate() {
        let path = p.as_str().unwrap().to_string();
        let r = run_caught(|| match defs.match_route(&path) {
            None => json!({"matched": false, "prefix": "", "child": "", "params": {}}),
            Some(m) => {
                let prefix = m.as_matched().to_string();
                let params: serde_json::Map<String, Value> = m.to_params().into_iter().map(|(k, v)| (k.to_string(), json!(v.split('/').filter(|x| !x.is_empty()).collect::<Vec<_>>()))).collect();
                let (_, child) = m.into_view_and_child();
                let child = child.map(|c| c.as_matched().to_string()).unwrap_or_else(|| "none".to_string());
                json!({"matched": true, "prefix": prefix, "child": child, "params": params})
            }
        });
        match r {
            Ok(v) => w.emit(&json!({"ev": "Match", "case": id, "k": k + 1, "path": path, "path_segs": split(&path), "outcome": "Ok", "res": v})),
            Err(msg) => w.emit(&json!({"ev": "Match", "case": id, "k": k + 1, "path": path, "path_segs": split(&path), "outcome": "Panic", "panic": msg,
                                       "res": {"matched": false, "prefix": "", "child": "", "params": {}}})),
        }
    }
}

macro_rules! route_case {
    ($m:ident, $c:expr, $w:expr) => {{
        use leptos_i18n_router::I18nRoute;
        use leptos_router::components::Route;
        use leptos_router::{OptionalParamSegment, ParamSegment, StaticSegment, WildcardSegment};
        type L = $m::i18n::Locale;
        let about = || leptos_i18n_router::i18n_path!(L, |l: L| loc_name("about", l.as_str()));
        let users = || leptos_i18n_router::i18n_path!(L, |l: L| loc_name("users", l.as_str()));
        let owner = Owner::new();
        owner.with(|| match $c["table"].as_str().unwrap() {
            "T1" => {
                let routes = view! {
                    <I18nRoute<L, _, _> view=|| ()>
                        <Route path=(about(),) view=|| ()/>
                        <Route path=(users(), ParamSegment("p")) view=|| ()/>
                        <Route path=(StaticSegment("docs"), WildcardSegment("s")) view=|| ()/>
                    </I18nRoute<L, _, _>>
                };
                match $c["base"].as_str().unwrap() {
                    "" => observe_routes(&leptos_router::RouteDefs::new(routes.clone().into_inner()), $c, $w),
                    b => observe_routes(&leptos_router::RouteDefs::new_with_base(routes.clone().into_inner(), b.to_string()), $c, $w),
                }
            }
            "T2" => {
                let routes = view! {
                    <I18nRoute<L, _, _> view=|| ()>
                        <Route path=(OptionalParamSegment("o"), about()) view=|| ()/>
                        <Route path=(StaticSegment("x"), users(), OptionalParamSegment("o")) view=|| ()/>
                    </I18nRoute<L, _, _>>
                };
                match $c["base"].as_str().unwrap() {
                    "" => observe_routes(&leptos_router::RouteDefs::new(routes.clone().into_inner()), $c, $w),
                    b => observe_routes(&leptos_router::RouteDefs::new_with_base(routes.clone().into_inner(), b.to_string()), $c, $w),
                }
            }
            other => panic!("unknown table {}", other),
        })
    }};
}

// A single-threaded executor: everything the reactive system spawns (effects, also the "isomorphic" ones) runs on this thread,
// and only when the executor is polled.  The harness replays SEQUENTIAL behaviours; with a thread pool an effect of the library can
// read a signal at the very moment the next step writes it, and reactive_graph (which takes its locks without blocking) then
// reports a signal as "disposed" - a race of the harness' own making.
mod st_exec {
    use futures::executor::{LocalPool, LocalSpawner};
    use futures::task::LocalSpawnExt;
    use std::cell::RefCell;
    thread_local! {
        static POOL: RefCell<LocalPool> = RefCell::new(LocalPool::new());
        static SPAWNER: LocalSpawner = POOL.with(|p| p.borrow().spawner());
    }
    pub struct SingleThread;
    impl any_spawner::CustomExecutor for SingleThread {
        fn spawn(&self, fut: any_spawner::PinnedFuture<()>) {
            SPAWNER.with(|s| s.spawn_local(fut).expect("spawn"));
        }
        fn spawn_local(&self, fut: any_spawner::PinnedLocalFuture<()>) {
            SPAWNER.with(|s| s.spawn_local(fut).expect("spawn_local"));
        }
        fn poll_local(&self) {
            POOL.with(|p| {
                if let Ok(mut p) = p.try_borrow_mut() {
                    p.run_until_stalled();
                }
            });
        }
    }
    pub fn init() {
        let _ = any_spawner::Executor::init_custom_executor(SingleThread);
    }
}

pub struct Out {
    w: std::io::BufWriter<std::fs::File>,
}
impl Out {
    fn create(path: &str, append: bool) -> Self {
        let f = std::fs::OpenOptions::new().create(true).write(true).append(append).truncate(!append).open(path).expect("open out");
        Out { w: std::io::BufWriter::new(f) }
    }
    pub fn emit(&mut self, v: &Value) {
        use std::io::Write;
        serde_json::to_writer(&mut self.w, v).expect("write");
        self.w.write_all(b"\n").expect("write");
        self.w.flush().expect("flush");
    }
}

pub fn run_caught<T>(f: impl FnOnce() -> T) -> Result<T, String> {
    match std::panic::catch_unwind(std::panic::AssertUnwindSafe(f)) {
        Ok(v) => Ok(v),
        Err(e) => Err(if let Some(s) = e.downcast_ref::<&str>() {
            s.to_string()
        } else if let Some(s) = e.downcast_ref::<String>() {
            s.clone()
        } else {
            "<non-string panic>".to_string()
        }),
    }
}

fn main() {
    let args: Vec<String> = std::env::args().collect();
    let mut cases = String::new();
    let mut out = String::new();
    let mut skip = 0usize;
    let mut i = 1;
    while i < args.len() {
        match args[i].as_str() {
            "--cases" => { cases = args[i + 1].clone(); i += 2; }
            "--out" => { out = args[i + 1].clone(); i += 2; }
            "--skip" => { skip = args[i + 1].parse().unwrap(); i += 2; }
            _ => panic!("unknown arg {}", args[i]),
        }
    }
    std::panic::set_hook(Box::new(|_| {}));
    st_exec::init();
    let mut w = Out::create(&out, skip > 0);
    let txt = std::fs::read_to_string(&cases).expect("cases");
    for (n, line) in txt.lines().enumerate() {
        if n < skip || line.trim().is_empty() {
            continue;
        }
        let c: Value = serde_json::from_str(line).expect("case json");
        w.emit(&json!({"ev": "Begin", "case": c["case"], "n": n}));
        if c["mode"].as_str() == Some("routes") {
            match c["set"].as_str().unwrap() {
                "R1" => route_case!(r1, &c, &mut w),
                "R2" => route_case!(r2, &c, &mut w),
                "R3" => route_case!(r3, &c, &mut w),
                other => panic!("unknown set {}", other),
            }
            continue;
        }
        match c["set"].as_str().unwrap() {
            "R1" => run_case::<r1::i18n::Locale>(&c, &mut w),
            "R2" => run_case::<r2::i18n::Locale>(&c, &mut w),
            "R3" => run_case::<r3::i18n::Locale>(&c, &mut w),
            other => panic!("unknown set {}", other),
        }
    }
    w.emit(&json!({"ev": "End"}));
}
