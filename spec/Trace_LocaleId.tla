----------------------------- MODULE Trace_LocaleId -----------------------------
(* Validates the methods of generated locale enums (load_locales! and            *)
(* declare_locales!) against module LocaleId.  Texts of names and probes are     *)
(* supplied next to their symbol sequences (abs.name_text / abs.probe_text).     *)
EXTENDS Chars, Json, IOUtils

Rec   == ndJsonDeserialize(IOEnv.TRACE)
Cases == ndJsonDeserialize(IOEnv.CASES)
VARIABLE l

ParseName(set, text) ==
    LET t == Trim(text)
        I == { i \in DOMAIN set : set[i] = t } IN
    IF I = {} THEN 0 ELSE CHOOSE i \in I : TRUE

IdxOfText(a, s) == IF \E i \in DOMAIN a.name_text : a.name_text[i] = s THEN CHOOSE i \in DOMAIN a.name_text : a.name_text[i] = s ELSE 0
Quoted(s) == "\"" \o s \o "\""

Tags(ev) ==
    IF ev.ev = "Crash" THEN {"crash:" \o ev.outcome}
    ELSE IF ev.ev # "Ident" THEN {}
    ELSE LET a == Cases[ev.case].abs IN
      CASE ev.op = "get_all" ->
             (IF Range(ev.res) = Range(a.name_text) /\ Len(ev.res) = Len(a.name_text) THEN {} ELSE {"get_all-set"})
             \cup (IF ev.res # <<>> /\ ev.res[1] = a.name_text[1] THEN {} ELSE {"get_all-default-not-first"})
             \cup (IF ev.default = a.name_text[1] THEN {} ELSE {"default"})
        [] ev.op = "forms" ->
             LET nm == ev.locale IN
             (IF IdxOfText(a, nm) # 0 THEN {} ELSE {"as_str-not-a-name"})
             \cup (IF ev.display = nm /\ ev.as_ref = nm THEN {} ELSE {"display"})
             \cup (IF ev.cookie = nm THEN {} ELSE {"cookie-encode"})
             \cup (IF ev.serde = Quoted(nm) THEN {} ELSE {"serde-encode"})
             \* the ICU locale / language identifier OF THAT NAME (ICU canonicalises the casing; icuOfName is the driver's direct parse)
             \cup (IF ev.icu = ev.icuOfName /\ ev.langid = ev.langidOfName THEN {} ELSE {"icu-locale"})
             \cup (IF ev.direction = ev.cldrDir THEN {} ELSE {"direction"})
        [] ev.op = "parse" ->
             LET i == ParseName(a.names, a.probes[ev.pi])
                 want == IF i = 0 THEN "err" ELSE a.name_text[i] IN
             (IF ev.arg = a.probe_text[ev.pi] THEN {} ELSE {"harness-probe-mismatch"})
             \cup (IF ev.from_str = want THEN {} ELSE {"from_str"})
             \cup (IF ev.serde = (IF i = 0 THEN a.name_text[1] ELSE a.name_text[i]) THEN {} ELSE {"serde-decode"})
             \cup (IF (i # 0 /\ ev.cookie = want) \/ (i = 0 /\ ev.cookie \in {"err", a.name_text[1]}) THEN {} ELSE {"cookie-decode"})
        [] ev.op = "forms_min" ->
             (IF IdxOfText(a, ev.locale) # 0 THEN {} ELSE {"as_str-not-a-name"})
             \cup (IF ev.display = ev.locale THEN {} ELSE {"display"})
             \cup (IF ev.from_str = ev.locale THEN {} ELSE {"from_str"})
        [] ev.op = "scoped_forms" ->
             (IF ev.as_str = ev.locale /\ ev.display = ev.locale /\ ev.serde = Quoted(ev.locale) THEN {} ELSE {"scoped-forms"})
        [] ev.op = "scoped_parse" ->
             LET i == ParseName(a.names, a.probes[ev.pi]) IN
             (IF ev.from_str = (IF i = 0 THEN "err" ELSE a.name_text[i]) THEN {} ELSE {"scoped-from_str"})
        [] OTHER -> {}

TraceInit == l = 1
TraceNext ==
    /\ l <= Len(Rec)
    /\ l' = l + 1
    /\ LET tags == Tags(Rec[l]) IN
         tags = {} \/ PrintT(<<"REJECT", ToJson([l |-> l, case |-> Rec[l].case, tags |-> tags])>>)
TraceSpec == TraceInit /\ [][TraceNext]_l
Post == PrintT(<<"SUMMARY", ToJson([events |-> Len(Rec), consumed |-> TLCGet("stats").diameter - 1])>>)
=============================================================================
