//! drv_build: replays materialised projects into the public API of `leptos_i18n_build`
//! (what a user's build.rs calls) and logs what it returned.
//!   Icu    event: get_icu_keys / get_locales / get_namespaces / files_paths
//!   Export event: get_translations().write_to_dir() and the files it wrote, decoded as JSON

use std::collections::BTreeMap;
use std::path::{Path, PathBuf};

use drv_common::*;
use leptos_i18n_build::{Options, TranslationsInfos};
use serde_json::{json, Value};

fn family_keys() -> Value {
    let mut m = serde_json::Map::new();
    for (name, o) in [
        ("Plurals", Options::Plurals),
        ("FormatDateTime", Options::FormatDateTime),
        ("FormatList", Options::FormatList),
        ("FormatNums", Options::FormatNums),
        ("FormatCurrency", Options::FormatCurrency),
    ] {
        let mut keys: Vec<String> = o.into_data_keys().iter().map(|k| k.path().get().to_string()).collect();
        keys.sort();
        m.insert(name.to_string(), json!(keys));
    }
    Value::Object(m)
}

fn read_tree(syms: &Syms, root: &Path, dir: &Path, out: &mut BTreeMap<String, Value>) {
    if let Ok(rd) = std::fs::read_dir(dir) {
        for e in rd.flatten() {
            let p = e.path();
            if p.is_dir() {
                read_tree(syms, root, &p, out);
            } else {
                let rel = p.strip_prefix(root).unwrap().to_string_lossy().to_string();
                let txt = std::fs::read(&p).unwrap_or_default();
                let v = match String::from_utf8(txt) {
                    Err(_) => json!({"decodeErr": "not utf8"}),
                    Ok(t) => match serde_json::from_str::<Vec<String>>(&t) {
                        Ok(strings) => json!({"decoded": strings.iter().map(|s| syms.syms(s)).collect::<Vec<_>>()}),
                        Err(e) => json!({"decodeErr": e.to_string()}),
                    },
                };
                out.insert(rel, v);
            }
        }
    }
}

fn main() {
    let args: Vec<String> = std::env::args().collect();
    let mut cases = String::new();
    let mut out = String::new();
    let mut skip = 0usize;
    let mut i = 1;
    while i < args.len() {
        match args[i].as_str() {
            "--cases" => { cases = args[i + 1].clone(); i += 2; }
            "--out" => { out = args[i + 1].clone(); i += 2; }
            "--skip" => { skip = args[i + 1].parse().unwrap(); i += 2; }
            _ => panic!("unknown arg {}", args[i]),
        }
    }
    silence_panics();
    let syms = Syms::load();
    let mut w = Out::create(&out, skip > 0);
    let fam = family_keys();
    let txt = std::fs::read_to_string(&cases).expect("cases");
    for (n, line) in txt.lines().enumerate() {
        if n < skip || line.trim().is_empty() {
            continue;
        }
        let c: Value = serde_json::from_str(line).expect("case json");
        let id = c["case"].clone();
        w.emit(&json!({"ev": "Begin", "case": id, "n": n}));
        drv_common::apply_pre_copy(&c);
        let dir = c["dir"].as_str().unwrap().to_string();
        let d2 = dir.clone();
        let r = run_caught(move || TranslationsInfos::parse_at_dir(PathBuf::from(d2)));
        let infos = match r {
            Err(msg) => {
                w.emit(&json!({"ev": "Build", "case": id, "outcome": "Panic", "panic": msg}));
                continue;
            }
            Ok(Err(e)) => {
                w.emit(&json!({"ev": "Build", "case": id, "outcome": "Err", "errClass": error_class(&e), "errText": e.to_string()}));
                continue;
            }
            Ok(Ok(i)) => i,
        };
        let res = run_caught(std::panic::AssertUnwindSafe(|| {
            let mut keys: Vec<String> = infos.get_icu_keys().map(|k| k.path().get().to_string()).collect();
            keys.sort();
            keys.dedup();
            let locales: Vec<String> = infos.get_locales().map(|l| l.to_string()).collect();
            let namespaces = match infos.get_namespaces() {
                Some(ns) => json!(ns.map(|n| n.to_string()).collect::<Vec<_>>()),
                None => json!("none"),
            };
            let files: Vec<String> = infos
                .files_paths()
                .iter()
                .map(|f| f.strip_prefix(&dir).map(|s| s.trim_start_matches('/').to_string()).unwrap_or_else(|| f.clone()))
                .collect();
            // export
            let exp_dir = PathBuf::from(format!("{}/__export", dir));
            let _ = std::fs::remove_dir_all(&exp_dir);
            let wr = infos.get_translations().write_to_dir(exp_dir.clone());
            let mut exported = BTreeMap::new();
            read_tree(&syms, &exp_dir, &exp_dir, &mut exported);
            let _ = std::fs::remove_dir_all(&exp_dir);
            json!({"keys": keys, "locales": locales, "namespaces": namespaces, "files": files,
                   "write": match wr { Ok(()) => "Ok".to_string(), Err(e) => format!("Err: {}", e) },
                   "exported": exported})
        }));
        match res {
            Ok(v) => w.emit(&json!({"ev": "Build", "case": id, "outcome": "Ok", "res": v, "familyKeys": fam})),
            Err(msg) => w.emit(&json!({"ev": "Build", "case": id, "outcome": "Panic", "panic": msg})),
        }
    }
    w.emit(&json!({"ev": "End"}));
}
