------------------------------- MODULE Chars -------------------------------
(* Text handling over symbol sequences: character classes and the string     *)
(* primitives (find, split, trim) the value grammar is defined with.         *)
EXTENDS Common

Letters == {"a","b","c","d","e","f","g","h","i","j","k","l","m","n","o","p","q","r","s","t","u","v","w","x","y","z",
            "A","B","C","D","E","F","G","H","I","J","K","L","M","N","O","P","Q","R","S","T","U","V","W","X","Y","Z"}
Digits  == {"0","1","2","3","4","5","6","7","8","9"}

\* Rust's char::is_whitespace on the symbols of lexemes.json (ZW, U+200B, is *not* whitespace)
IsWs(c) == c \in {"SP", "TAB", "NL", "CR", "NBSP", "LS"}
\* XID_Start / XID_Continue on the symbols of lexemes.json
IsIdentStart(c) == c \in Letters \cup {"US", "E1", "RTL", "CJK"}
IsIdentCont(c)  == IsIdentStart(c) \/ c \in Digits \cup {"COMB"}

\* a Rust identifier once prefixed with `var_` / `comp_` (so a leading digit is fine), '-' is mapped to '_'
IsNameAfterPrefix(s) == \A i \in DOMAIN s : IsIdentCont(s[i]) \/ s[i] = "DASH"

RECURSIVE TrimStart(_), TrimEnd(_)
TrimStart(s) == IF s # <<>> /\ IsWs(Head(s)) THEN TrimStart(Tail(s)) ELSE s
TrimEnd(s)   == IF s # <<>> /\ IsWs(s[Len(s)]) THEN TrimEnd(SubSeq(s, 1, Len(s) - 1)) ELSE s
Trim(s)      == TrimEnd(TrimStart(s))

StartsWithAt(s, i, pat) == i >= 1 /\ i + Len(pat) - 1 <= Len(s) /\ SubSeq(s, i, i + Len(pat) - 1) = pat

\* least j >= i at which pat occurs in s, 0 when there is none
RECURSIVE FindFrom(_, _, _)
FindFrom(s, pat, i) ==
    IF i + Len(pat) - 1 > Len(s) THEN 0
    ELSE IF StartsWithAt(s, i, pat) THEN i
    ELSE FindFrom(s, pat, i + 1)

\* decimal spelling of an integer as symbols
DigitSyms == <<"0","1","2","3","4","5","6","7","8","9">>
RECURSIVE NatSyms(_)
NatSyms(n) == IF n < 10 THEN <<DigitSyms[n + 1]>> ELSE NatSyms(n \div 10) \o <<DigitSyms[(n % 10) + 1]>>
IntSyms(n) == IF n < 0 THEN <<"DASH">> \o NatSyms(0 - n) ELSE NatSyms(n)

Before(s, i) == SubSeq(s, 1, i - 1)
From(s, i)   == SubSeq(s, i, Len(s))
=============================================================================
