CONSTANTS
  Projects <- NoUse
  Tier = "thorough"
SPECIFICATION MCSpec
INVARIANTS ExactlyNeeds NeverTooMuch EmitCases
PROPERTY Termination
CHECK_DEADLOCK FALSE
