"""C19  Configuration is validated and normalised as documented."""
import json

import vp
from checks import loadfam


def _key(c, r):
    raw = c["abs"]["raw"]
    return "default=%s;locales=%s;ns=%s;inherits=%s;variant=%s/%s/%s/%s/%s;drop=%s;%s" % (
        raw["default"], raw["locales"]["v"] if raw["locales"]["p"] else "absent",
        raw["namespaces"]["v"] if raw["namespaces"]["p"] else "absent",
        raw["inherits"]["v"] if raw["inherits"]["p"] else "absent",
        raw["section"], raw["dir"], raw["pre"], raw.get("hdr", "plain"), raw["post"], c["abs"]["drop"], sorted(r["tags"])[0])


def check(run):
    cfg = "MC_Config_quick.cfg" if run.tier == "quick" else "MC_Config_thorough.cfg"
    cases, res = loadfam.gen_cases(run, "MC_Config", cfg)
    if len(cases) < 10:
        raise vp.ToolError("MC_Config produced too few cases")
    # spec mutant: with the validation order of the pinned implementation TLC must find a counterexample
    mut = vp.tlc("MC_Config", "MC_Config_asimpl.cfg", run.workdir)
    run.notes["spec_mutant_InheritsSeesDefault_FALSE_detected"] = (mut["violated"] == "Conforms")
    if mut["violated"] != "Conforms":
        raise vp.ToolError("spec mutant MC_Config_asimpl was not detected by TLC")
    mid = len(cases) // 2
    run.samples = [c["abs"] for c in cases[mid:mid + 2]]
    loadfam.replay_load(run, cases, "Trace_Config", "Trace_Config.cfg", key_of=_key, tag="_json", trace_env={"EXT": "json"})
    # the build-script API on the same projects
    loadfam.replay_load(run, cases, "Trace_Config", "Trace_Config.cfg", package="drv_build", key_of=lambda c, r: "build-api;" + _key(c, r), tag="_build",
                        per_case_timeout=60, trace_env={"EXT": "json"})
    # the other readers: which file is opened depends on the extensions the build knows (.yaml before .yml; .json5)
    # (tag, feature, format, extension written, unparsable twin, cases): `.yml` alone must be found; with both present `.yaml` wins
    sub = cases if run.tier != "quick" else cases[::6]
    variants = [("yaml", "yaml", "yaml", "yaml", None, cases), ("yml", "yaml", "yaml", "yml", None, sub),
                ("yaml+yml", "yaml", "yaml", "yaml", "yml", sub)]
    if run.tier != "quick":
        variants.append(("json5", "json5", "json5", "json5", None, cases))
    for vtag, feat, fmt, ext, decoy, cs in variants:
        cs = [dict(c) for c in cs]
        loadfam.replay_load(run, cs, "Trace_Config", "Trace_Config.cfg", build_features=(feat,), variant=feat,
                            fmt=fmt, ext=ext, decoy_ext=decoy, key_of=lambda c, r, e=vtag: e + ";" + _key(c, r), tag="_" + vtag.replace("+", "_"),
                            trace_env={"EXT": ext})
    run.exhaustive = True
    run.assumptions = ["locale lists up to the tier's length over {en,fr,de} incl. duplicates; 4 namespace choices; 8 inherits tables; textual variants of the manifest",
                       "files that must not be read are present as unparsable decoys; one required file is dropped in a second case per valid configuration"]
    valid = sum(1 for c in cases if not c["abs"]["drop"])
    return run.finish("one case per raw configuration (+ one with a required file removed when the configuration is valid); "
                      "non-trivial: every case (each is a distinct raw configuration)", {"distinct_nontrivial": valid})


def replay(run, path):
    rp = json.load(open(path))["replay"]
    loadfam.replay_load(run, [rp["case"]], "Trace_Config", "Trace_Config.cfg", keep_dirs=True, trace_env={"EXT": "json"})
    return run.finish("replay of one recorded case")
