----------------------------- MODULE Trace_Robust -----------------------------
(* C09: whatever the input, the outcome of loading is a result or an error.   *)
(* Panic / Abort / Timeout are outcomes no action of the specification has.   *)
EXTENDS Common, Json, IOUtils

Rec   == ndJsonDeserialize(IOEnv.TRACE)
Cases == ndJsonDeserialize(IOEnv.CASES)

VARIABLE l

Terminates(o) == o \in {"Ok", "Err"}

ClassTags(class, o) ==
    IF ~Terminates(o) THEN {"outcome:" \o o}
    ELSE IF class = "ok" /\ o # "Ok" THEN {"must-accept-got:" \o o}
    ELSE IF class = "err" /\ o # "Err" THEN {"must-reject-got:" \o o}
    ELSE {}

Tags(ev) ==
    IF ev.ev = "Value" THEN (IF Terminates(ev.res.outcome) THEN {} ELSE {"outcome:" \o ev.res.outcome})
    ELSE IF ev.ev = "Load"
         THEN LET a == Cases[ev.case].abs IN
              (IF Terminates(ev.cfg.outcome) THEN {} ELSE {"config-outcome:" \o ev.cfg.outcome})
              \cup ClassTags(IF "class" \in DOMAIN a THEN a.class ELSE "any", ev.load.outcome)
    ELSE IF ev.ev = "Codegen"
         THEN LET a == Cases[ev.case].abs IN
              { "codegen-" \o t : t \in ClassTags(IF "class" \in DOMAIN a THEN a.class ELSE "any", ev.outcome) }
    ELSE IF ev.ev = "Crash" THEN {"crash:" \o ev.outcome}
    ELSE {}

TraceInit == l = 1
TraceNext ==
    /\ l <= Len(Rec)
    /\ l' = l + 1
    /\ LET tags == Tags(Rec[l]) IN
         tags = {} \/ PrintT(<<"REJECT", ToJson([l |-> l, case |-> Rec[l].case, tags |-> tags])>>)
TraceSpec == TraceInit /\ [][TraceNext]_l

Post == PrintT(<<"SUMMARY", ToJson([events |-> Len(Rec), consumed |-> TLCGet("stats").diameter - 1])>>)
=============================================================================
