-------------------------------- MODULE Access --------------------------------
(* C02  Every accessor flavour of a key denotes the same text.                 *)
(*                                                                             *)
(* A fixed project with keys of every kind (literals of the five JSON types,   *)
(* interpolation, component, range, cardinal / ordinal plural, subkeys three   *)
(* levels deep) in three locales, one of which leaves some keys null.  A       *)
(* "view" is a locale together with a scope prefix; scoping a view appends to  *)
(* the prefix and NEVER changes the locale; an access reads the key at         *)
(* prefix \o path.  What an access denotes mentions neither the flavour nor    *)
(* how the path is split between scope and key.                                *)
EXTENDS Value, FallbackOps, RangesOps, PluralsOps, Json, IOUtils

Locales3 == <<"en", "fr", "de">>
LTag == [en |-> <<"e","n">>, fr |-> <<"f","r">>, de |-> <<"d","e">>]
Cnt == <<"c","o","u","n","t">>
X == <<"x">>
TagText(l, w) == LTag[l] \o <<"DASH">> \o w

\* entries: [k |-> "lit", ty, s] | [k |-> "val", v] | [k |-> "ranges", ty, b] | [k |-> "plurals", ty, forms] | [k |-> "null"]
Lit(ty, s) == [k |-> "lit", ty |-> ty, s |-> s]
ValE(v) == [k |-> "val", v |-> v]
RangeE(l) == [k |-> "ranges", ty |-> "u8",
              b |-> << [alts |-> <<Exact(1)>>, v |-> <<Text(TagText(l, <<"z">>))>>],
                       [alts |-> <<Incl(2, 4)>>, v |-> <<Text(TagText(l, <<"f","SP">>)), Var(Cnt)>>],
                       [alts |-> <<Wild>>, v |-> <<Text(TagText(l, <<"m","SP">>)), Var(Cnt), Var(X)>>] >>]
PluralE(l, ty) == [k |-> "plurals", ty |-> ty,
                   forms |-> [one |-> <<Text(TagText(l, <<"o","n","e","SP">>)), Var(Cnt)>>,
                              other |-> <<Text(TagText(l, <<"o","t","h","SP">>)), Var(Cnt), Text(<<"SP">>), Var(X)>>]]
NullE == [k |-> "null"]
\* a value of 2n + 1 pieces (the view back-end nests tuples beyond 26 pieces): x a x b x c ... x
Alpha == <<"a","b","c","d","e","f","g","h","i","j","k","l","m","n","o","p","q","r","s","t","u","v","w","x","y","z","A","B","C","D">>
LongV(l, n) == <<Text(LTag[l])>> \o Cat([i \in 1..n |-> <<Var(X), Text(<<Alpha[i]>>)>>]) \o <<Var(X), Text(<<"DOT">>)>>

\* key paths are strings "a.b.c"; the key tree is fixed
Paths == {"lit_s", "lit_u", "lit_i", "lit_f", "lit_b", "v", "c", "r", "p", "o", "g.s", "g.h.t", "g.h.r", "g.h.c", "long", "g.h.l"}
EntryOf(l, p) ==
    CASE p = "lit_s" -> Lit("String", TagText(l, <<"s">>))
      [] p = "lit_u" -> Lit("Unsigned", <<"5">>)
      [] p = "lit_i" -> Lit("Signed", <<"DASH", "3">>)
      [] p = "lit_f" -> Lit("Float", <<"1", "DOT", "5">>)
      [] p = "lit_b" -> Lit("Bool", <<"t","r","u","e">>)
      [] p = "v" -> IF l = "de" THEN NullE ELSE ValE(<<Text(TagText(l, <<"SP">>)), Var(X), Text(<<"SP","e","n","d">>)>>)
      [] p = "c" -> ValE(<<Text(LTag[l]), Comp(<<"b">>, <<Text(<<"i","n","SP">>), Var(X)>>), Comp(<<"i">>, <<Comp(<<"b">>, <<Text(<<"n">>)>>)>>)>>)
      [] p = "r" -> RangeE(l)
      [] p = "p" -> IF l \in {"de", "fr"} THEN NullE ELSE PluralE(l, "cardinal")   \* fr and en disagree on the category of 0
      [] p = "o" -> PluralE(l, "ordinal")
      [] p = "long" -> IF l = "de" THEN NullE ELSE ValE(LongV(l, 12))          \* 1 + 24 + 2 = 27 pieces
      [] p = "g.h.l" -> ValE(LongV(l, 26))                                    \* 55 pieces
      [] p = "g.s" -> ValE(<<Text(TagText(l, <<"g","s","SP">>)), Var(X)>>)
      [] p = "g.h.t" -> IF l = "fr" THEN NullE ELSE Lit("String", TagText(l, <<"g","h","t">>))
      [] p = "g.h.r" -> RangeE(l)
      [] OTHER -> ValE(<<Comp(<<"b">>, <<Text(TagText(l, <<"c">>))>>)>>)

\* which locale's entry locale l shows (no inherits in this project: null falls back to the default "en")
Shown(l, p) == IF EntryOf(l, p).k = "null" THEN "en" ELSE l

\* CLDR categories are data
OracleData == JsonDeserialize(IOEnv.ORACLE)

\* what (locale, path) denotes under env (var name -> symbols) and count c = [idx (anchor of u8), sym, tok]
DenoteEntry(l, p, env, c) ==
    LET e == EntryOf(Shown(l, p), p)
        envc == [n \in DOMAIN env \cup {"count"} |-> IF n = "count" THEN c.sym ELSE env[n]] IN
    CASE e.k = "lit" -> e.s
      [] e.k = "val" -> Denote(e.v, env)
      [] e.k = "ranges" -> Denote(e.b[Select(e.b, c.idx)].v, envc)
      [] OTHER -> Denote(e.forms[FormFor(DOMAIN e.forms, OracleData.cats[l][e.ty][c.tok])], envc)   \* plural rules of the rendered locale

NeedsCount(p) == EntryOf("en", p).k \in {"ranges", "plurals"}
VarsOfPath(p) == CASE p \in {"v", "g.s", "long", "g.h.l"} -> {"x"} [] p \in {"r", "p", "o", "g.h.r"} -> {"x"} [] p = "c" -> {"x"} [] OTHER -> {}
CompsOfPath(p) == CASE p = "c" -> {"b", "i"} [] p = "g.h.c" -> {"b"} [] OTHER -> {}

\* ---- the scoping machine ------------------------------------------------------------------------
VARIABLES loc, prefix       \* a view
vars == <<loc, prefix>>
Join(a, b) == IF a = "" THEN b ELSE a \o "." \o b
\* what lies below a scope prefix: <<full path, remaining key path>>
Below == [root |-> { <<p, p>> : p \in Paths },
          g    |-> { <<"g.s", "s">>, <<"g.h.t", "h.t">>, <<"g.h.r", "h.r">>, <<"g.h.c", "h.c">>, <<"g.h.l", "h.l">> },
          gh   |-> { <<"g.h.t", "t">>, <<"g.h.r", "r">>, <<"g.h.c", "c">>, <<"g.h.l", "l">> }]
PrefixName == [root |-> "", g |-> "g", gh |-> "g.h"]
Init == loc \in Range(Locales3) /\ prefix = "root"
Scope == \/ prefix = "root" /\ prefix' \in {"g", "gh"} /\ UNCHANGED loc      \* scope to g, or directly to g.h
         \/ prefix = "g" /\ prefix' = "gh" /\ UNCHANGED loc                    \* chained scoping
Next == Scope
\* scoping never changes the locale, and the key read through a scope is the full path
ScopeKeepsLocale == [][loc' = loc]_vars
ReachIsBelow == \A pr \in Below[prefix] : pr[1] = Join(PrefixName[prefix], pr[2])

\* ---- files and cases ----------------------------------------------------------------------------------
Leaf(l, p) ==
    LET e == EntryOf(l, p) IN
    CASE e.k = "null" -> NullNode
      [] e.k = "lit" -> IF e.ty = "String" THEN StrNode(e.s) ELSE RawSym(e.s)
      [] e.k = "val" -> StrNode(Unparse(e.v, NoWs))
      [] OTHER -> SeqNode(<<StrNode(<<"u","8">>)>> \o [j \in DOMAIN e.b |->
                     SeqNode(<<StrNode(Unparse(e.b[j].v, NoWs))>> \o (IF e.b[j].alts[1].f = "wild" THEN <<>> ELSE <<StrNode(SpecText(e.b[j].alts[1], "u8"))>>))])
PluralLeaves(l, p, name) ==
    LET e == EntryOf(l, p) IN
    IF e.k = "null" THEN << <<name, NullNode>> >>      \* a plural key is nulled through its merged name
    ELSE << <<name \o (IF e.ty = "ordinal" THEN "_ordinal_one" ELSE "_one"), StrNode(Unparse(e.forms["one"], NoWs))>>,
            <<name \o (IF e.ty = "ordinal" THEN "_ordinal_other" ELSE "_other"), StrNode(Unparse(e.forms["other"], NoWs))>> >>
FileOf(l) ==
    MapNode(<< <<"lit_s", Leaf(l, "lit_s")>>, <<"lit_u", Leaf(l, "lit_u")>>, <<"lit_i", Leaf(l, "lit_i")>>, <<"lit_f", Leaf(l, "lit_f")>>,
               <<"lit_b", Leaf(l, "lit_b")>>, <<"v", Leaf(l, "v")>>, <<"c", Leaf(l, "c")>>, <<"r", Leaf(l, "r")>>, <<"long", Leaf(l, "long")>> >>
            \o PluralLeaves(l, "p", "p") \o PluralLeaves(l, "o", "o")
            \o << <<"g", MapNode(<< <<"s", Leaf(l, "g.s")>>,
                                     <<"h", IF l = "fr" THEN MapNode(<< <<"t", Leaf(l, "g.h.t")>>, <<"r", Leaf(l, "g.h.r")>>, <<"c", Leaf(l, "g.h.c")>>, <<"l", Leaf(l, "g.h.l")>> >>)
                                            ELSE MapNode(<< <<"t", Leaf(l, "g.h.t")>>, <<"r", Leaf(l, "g.h.r")>>, <<"c", Leaf(l, "g.h.c")>>, <<"l", Leaf(l, "g.h.l")>> >>)>> >>)>> >>)

Project == [cfg |-> [default |-> "en", locales |-> Locales3],
            files |-> [i \in DOMAIN Locales3 |-> <<Locales3[i], FileOf(Locales3[i])>>]]

RangeCounts == { [idx |-> i, sym |-> Anchor["u8"][i], tok |-> ""] : i \in {1, 2, 4, 6} }
PluralCounts == { [idx |-> 0, sym |-> <<"0">>, tok |-> "0"], [idx |-> 0, sym |-> <<"1">>, tok |-> "1"], [idx |-> 0, sym |-> <<"2">>, tok |-> "2"], [idx |-> 0, sym |-> <<"5">>, tok |-> "5"] }
NoCount == [idx |-> 0, sym |-> <<>>, tok |-> ""]
CountsFor(p) == IF EntryOf("en", p).k = "ranges" THEN RangeCounts ELSE IF EntryOf("en", p).k = "plurals" THEN PluralCounts ELSE {NoCount}

EmitProject == (prefix = "root" /\ loc = "en") => PrintT(<<"PROJECT", ToJson(Project)>>)
EmitAccesses == \A pr \in Below[prefix] : \A c \in CountsFor(pr[1]) :
                  PrintT(<<"CASE", ToJson([locale |-> loc, scope |-> PrefixName[prefix], path |-> pr[1], rest |-> pr[2], count |-> c,
                                           kind |-> EntryOf("en", pr[1]).k, lit |-> IF EntryOf("en", pr[1]).k = "lit" THEN EntryOf("en", pr[1]).ty ELSE "none",
                                           vars |-> VarsOfPath(pr[1]), comps |-> CompsOfPath(pr[1])])>>)
MCSpec == Init /\ [][Next]_vars
=============================================================================
