------------------------------ MODULE Negotiate ------------------------------
(* The matching loop of the implementation: for each request in order, first  *)
(* the supported locales equal to it, then those covering it, are moved from  *)
(* `remaining` to `supported`; finally the first supported locale is picked.  *)
(* SortScope names where candidates are ordered by specificity:              *)
(*   "per_request" - among the candidates one request contributed (required)  *)
(*   "global"      - over the whole list at the end (defeats request order)   *)
EXTENDS NegotiateOps

CONSTANTS Requests, Avails, Defaults, SortScope

VARIABLES req, avail, default, remaining, supported, i, pass, result
vars == <<req, avail, default, remaining, supported, i, pass, result>>

\* available locales in declaration order: default first, then the others in ANY order (the order is part of the input)
Orders(av, d) == LET rest == av \ {d} IN
                 { <<d>> \o q : q \in { p \in [1..Cardinality(rest) -> rest] : \A x, y \in DOMAIN p : x # y => p[x] # p[y] } }

Init == /\ req \in Requests /\ default \in Defaults /\ avail \in { a \in Avails : default \in a }
        /\ remaining \in Orders(avail, default) /\ supported = <<>> /\ i = 1 /\ pass = "exact" /\ result = "none"

\* stable sort by decreasing specificity
RECURSIVE InsertSorted(_, _)
InsertSorted(s, x) == IF s = <<>> THEN <<x>>
                      ELSE IF Specificity(Head(s)) >= Specificity(x) THEN <<Head(s)>> \o InsertSorted(Tail(s), x)
                      ELSE <<x>> \o s
SortDesc(s) == FoldLeft(InsertSorted, <<>>, s)

Hit(a, tok, p) == Valid(tok) /\ (IF p = "exact" THEN Exact(a, tok) ELSE Covers(a, tok))

Pass ==
    /\ result = "none" /\ i <= Len(req)
    /\ LET hits == SelectSeq(remaining, LAMBDA a : Hit(a, req[i], pass))
           rest == SelectSeq(remaining, LAMBDA a : ~Hit(a, req[i], pass)) IN
       /\ remaining' = rest
       /\ supported' = supported \o (IF SortScope = "per_request" THEN SortDesc(hits) ELSE hits)
    /\ IF pass = "exact" THEN pass' = "range" /\ UNCHANGED i ELSE pass' = "exact" /\ i' = i + 1
    /\ UNCHANGED <<req, avail, default, result>>

Pick ==
    /\ result = "none" /\ i > Len(req)
    /\ LET final == IF SortScope = "global" THEN SortDesc(supported) ELSE supported IN
       result' = IF final = <<>> THEN default ELSE final[1]
    /\ UNCHANGED <<req, avail, default, remaining, supported, i, pass>>

Next == Pass \/ Pick

HonoursPreference == result # "none" => Honours(req, avail, default, result)
AlwaysSupported == result # "none" => result \in avail
Termination == <>(result # "none")
=============================================================================
