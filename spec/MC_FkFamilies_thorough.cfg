SPECIFICATION Spec
CHECK_DEADLOCK FALSE
CONSTANTS ArmTriples <- ArmAll
