---------------------------- MODULE PluralsCases ----------------------------
EXTENDS PluralsOps

Locs == <<"en", "fr", "ru", "ar", "pl", "ja", "cy", "ga", "lv", "he">>
FormSym == [zero |-> <<"z","e","r","o">>, one |-> <<"o","n","e">>, two |-> <<"t","w","o">>, few |-> <<"f","e","w">>,
            many |-> <<"m","a","n","y">>, other |-> <<"o","t","h","e","r">>]
\* (negative counts: CLDR takes its operands from the absolute value, -1 selects what 1 selects)
CountToks == <<"0", "1", "2", "3", "5", "11", "21", "100", "1000000", "1.5", "-1", "-2">>
CountSym == [i \in DOMAIN CountToks |->
              CASE CountToks[i] = "11" -> <<"1","1">> [] CountToks[i] = "21" -> <<"2","1">> [] CountToks[i] = "100" -> <<"1","0","0">>
                [] CountToks[i] = "1000000" -> <<"1","0","0","0","0","0","0">> [] CountToks[i] = "1.5" -> <<"1","DOT","5">>
                [] CountToks[i] = "-1" -> <<"DASH","1">> [] CountToks[i] = "-2" -> <<"DASH","2">>
                [] OTHER -> <<CountToks[i]>>]

FormText(m) == (IF m.ty = "ordinal" THEN <<"o">> ELSE <<"c">>) \o <<"DASH">> \o FormSym[m.form]

FkCount(i) == <<"DOL", "t", "LP", "k", "COMMA", "SP", "LB", "QUOT", "c", "o", "u", "n", "t", "QUOT", "COLON", "SP">>
              \o CountSym[i] \o <<"RB", "RP">>

\* every locale file has the same content: the members of base k, optionally a normal key k,
\* a lone suffixed key m_one, and (only when a plural is expected) the literal-count keys
FileOf(members, baseIsKey) ==
    LET ms == SortedSeq(members)
        res == Merge(members, baseIsKey) IN
    MapNode([j \in DOMAIN ms |-> <<KeyName("k", ms[j]), StrNode(FormText(ms[j]))>>]
            \o (IF baseIsKey THEN << <<"k", StrNode(<<"n">>)>> >> ELSE <<>>)
            \o << <<"m_one", StrNode(<<"l">>)>> >>
            \o (IF res.kind = "plural" THEN [i \in DOMAIN CountToks |-> <<"c" \o ToString(i), StrNode(FkCount(i))>>] ELSE <<>>))

\* ---- several plural keys in one file ------------------------------------------------------------------------------------
\* six cardinal plurals p1..p6 at the top level and three ordinal plurals q1..q3 inside the group g, each with all six forms,
\* in every locale: every locale reports its unused forms for EVERY one of them (one diagnostic per (locale, key path, form)),
\* and the outcome - diagnostics included - is the same on every run.
MultiTop    == <<"p1", "p2", "p3", "p4", "p5", "p6">>
MultiNested == <<"q1", "q2", "q3">>
BaseSym(b)  == CASE b = "p1" -> <<"p", "1">> [] b = "p2" -> <<"p", "2">> [] b = "p3" -> <<"p", "3">> [] b = "p4" -> <<"p", "4">>
                 [] b = "p5" -> <<"p", "5">> [] b = "p6" -> <<"p", "6">> [] b = "q1" -> <<"q", "1">> [] b = "q2" -> <<"q", "2">>
                 [] b = "q3" -> <<"q", "3">>
AllForms    == <<"zero", "one", "two", "few", "many", "other">>
MultiEntries(bases, ty) ==
    [n \in 1..(Len(bases) * 6) |->
        LET b == bases[((n - 1) \div 6) + 1]
            m == M(AllForms[((n - 1) % 6) + 1], ty) IN
        <<KeyName(b, m), StrNode(BaseSym(b) \o <<"DASH">> \o FormText(m))>>]
\* plus: a plural `d` written in the default locale only (explicitly `"d": null` elsewhere: a reference to a key that is absent from its own locale is an error) and, in every locale, keys e1..e10 that fix its
\* count through a foreign key: the form is the one the rules of the locale BEING RENDERED give, not those of the locale the forms
\* were written in
DForms == [n \in 1..6 |-> <<KeyName("d", M(AllForms[n], "cardinal")), StrNode(<<"d", "DASH">> \o FormText(M(AllForms[n], "cardinal")))>>]
FkCountTo(b, i) == <<"DOL", "t", "LP", b, "COMMA", "SP", "LB", "QUOT", "c", "o", "u", "n", "t", "QUOT", "COLON", "SP">> \o CountSym[i] \o <<"RB", "RP">>
EKeys == [i \in DOMAIN CountToks |-> <<"e" \o ToString(i), StrNode(FkCountTo("d", i))>>]
\* and, sorting BEFORE all of them at both levels, two sibling keys that merely look like plural forms (`a0_one`, `a0_two`, no
\* `_other`): they stay ordinary keys and must not disturb the diagnostics of the plurals that follow
Lookalikes == << <<"a0_one", StrNode(<<"x">>)>>, <<"a0_two", StrNode(<<"y">>)>> >>
MultiFileOf(loc) == MapNode(Lookalikes \o MultiEntries(MultiTop, "cardinal") \o << <<"g", MapNode(Lookalikes \o MultiEntries(MultiNested, "ordinal"))>> >>
                            \o (IF loc = "en" THEN DForms ELSE << <<"d", NullNode>> >>) \o EKeys)
MultiCase ==
    [family |-> "plurals-multi",
     abs |-> [multi |-> TRUE, top |-> MultiTop, nested |-> MultiNested],
     cfg |-> [default |-> "en", locales |-> Locs],
     files |-> [j \in DOMAIN Locs |-> <<Locs[j], MultiFileOf(Locs[j])>>]]

CaseOf(members, baseIsKey) ==
    [family |-> "plurals",
     abs |-> [members |-> members, baseIsKey |-> baseIsKey],
     cfg |-> [default |-> "en", locales |-> Locs],
     files |-> [j \in DOMAIN Locs |-> <<Locs[j], FileOf(members, baseIsKey)>>]]
=============================================================================
