------------------------------- MODULE IcuOps -------------------------------
(* C20, the declarative part: which ICU option families a set of uses needs. *)
EXTENDS Common

Feats  == {"plural", "number", "date", "time", "datetime", "list", "currency"}
Wheres == {"t", "g.s", "g.h.u"}
OptionOf(f) == CASE f = "plural" -> "Plurals" [] f = "number" -> "FormatNums" [] f = "list" -> "FormatList"
                 [] f = "currency" -> "FormatCurrency" [] OTHER -> "FormatDateTime"

Use(unit, where, loc, feat) == [unit |-> unit, where |-> where, loc |-> loc, feat |-> feat]

\* the property
Needs(uses) == { OptionOf(u.feat) : u \in uses }

=============================================================================
