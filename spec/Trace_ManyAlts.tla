---------------------------- MODULE Trace_ManyAlts ----------------------------
(* What generated code renders for every count of the many-alternatives keys   *)
(* (pipe and list syntax, td_string! and td!) is the first branch one of whose  *)
(* alternatives contains the count; the same for counts fixed in the file.      *)
EXTENDS ManyAlts, Json, IOUtils, TLC

Rec == ndJsonDeserialize(IOEnv.TRACE)
VARIABLE l

Tags(ev) ==
    IF ev.ev # "RenderManyAlts" THEN {}
    ELSE IF ev.key \notin DOMAIN Keys \/ ev.n \notin DomOf[ev.key] THEN {"harness-unknown-key-or-count"}
    ELSE IF ev.outcome # "Ok" THEN {"render-outcome:" \o ev.outcome}
    ELSE IF ev.out = Shown(ev.key, ev.n) THEN {} ELSE {"many-alternatives:" \o ev.key \o ":" \o ev.syntax \o ":" \o ev.flav}

TraceInit == l = 1
TraceNext ==
    /\ l <= Len(Rec)
    /\ l' = l + 1
    /\ LET tags == Tags(Rec[l]) IN
         tags = {} \/ PrintT(<<"REJECT", ToJson([l |-> l, case |-> 1, tags |-> tags])>>)
TraceSpec == TraceInit /\ [][TraceNext]_l
Post == PrintT(<<"SUMMARY", ToJson([events |-> Len(Rec), consumed |-> TLCGet("stats").diameter - 1])>>)
=============================================================================
