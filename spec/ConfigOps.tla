----------------------------- MODULE ConfigOps -----------------------------
(* C19  Configuration is validated and normalised as documented.             *)
(*                                                                           *)
(* A raw configuration is what the user wrote in Cargo.toml:                 *)
(*   [section, default, locales, namespaces, inherits, dir, unknown, pre, post]*)
(* default/dir: a string or None; locales/namespaces/inherits are optional      *)
(* sequences [p |-> present?, v |-> sequence]; inherits pairs <<locale,target>>*)
EXTENDS Common

Some(v) == [p |-> TRUE, v |-> v]
Absent  == [p |-> FALSE, v |-> <<>>]

Ok(v)  == [ok |-> TRUE, v |-> v]
Err(e) == [ok |-> FALSE, e |-> e]

HasDup(s) == Len(s) # Cardinality(Range(s))

\* the locale list the rest of the system sees: default first, every locale once
AllLocales(rc) == IF rc.default \in Range(rc.locales.v) THEN rc.locales.v ELSE rc.locales.v \o <<rc.default>>

\* The documented rule.  Known locales for `inherits` are those of the normalised list
\* (the default locale is always part of it, listed or not).
Normalise(rc) ==
    IF ~rc.section THEN Err("no-section")
    ELSE IF rc.default = None THEN Err("missing-default")
    ELSE IF ~rc.locales.p THEN Err("missing-locales")
    ELSE LET all == AllLocales(rc)
             inh == rc.inherits.v IN
         IF HasDup(all) THEN Err("duplicate-locales")
         ELSE IF rc.namespaces.p /\ HasDup(rc.namespaces.v) THEN Err("duplicate-namespaces")
         ELSE IF \E i \in DOMAIN inh : inh[i][1] \notin Range(all) \/ inh[i][2] \notin Range(all)
              THEN Err("inherits-unknown-locale")
         ELSE IF \E i \in DOMAIN inh : inh[i][1] = rc.default THEN Err("default-inherits")
         ELSE Ok([default |-> rc.default,
                  locales |-> Range(all),
                  namespaces |-> rc.namespaces,
                  dir |-> IF rc.dir = None THEN "locales" ELSE rc.dir,
                  inherits |-> Range(inh)])

\* files read for a normalised configuration (relative to the manifest directory, without extension)
FilesToRead(n) ==
    IF ~n.namespaces.p THEN { l : l \in n.locales }
    ELSE { l \o "/" \o n.namespaces.v[i] : l \in n.locales, i \in DOMAIN n.namespaces.v }
=============================================================================
