"""C16  A context always shows the last locale set; sub-contexts are isolated."""
import json
import random

import vp
from checks import runtimefam, ctxfam


def maximal(behaviours):
    """drop behaviours that are a proper prefix of another one (the longer one replays them)"""
    keys = {json.dumps(h, sort_keys=True) for h in behaviours}
    prefixes = set()
    for h in behaviours:
        for n in range(1, len(h)):
            prefixes.add(json.dumps(h[:n], sort_keys=True))
    return [h for h in behaviours if json.dumps(h, sort_keys=True) not in prefixes]


def check(run):
    quick = run.tier == "quick"
    rng = random.Random(run.seed)
    # 1) exhaustive exploration of the abstract state space (history hidden by a VIEW), isolation as action properties
    res = vp.tlc("MC_Context", "MC_Context_c16_quick.cfg" if quick else "MC_Context_c16.cfg", run.workdir, workers=8, timeout=7200)
    vp.tlc_ok(res, "MC_Context c16")
    run.add_mc("MC_Context/c16 (state space, VIEW without history)", res)
    # 2) every behaviour up to MaxHist operations
    gen = vp.tlc("MC_Context", "MC_Context_c16gen_quick.cfg" if quick else "MC_Context_c16gen.cfg", run.workdir, workers=8, timeout=7200)
    vp.tlc_ok(gen, "MC_Context c16gen")
    run.add_mc("MC_Context/c16gen (all behaviours of bounded length)", gen)
    vp.log("c16: state space + behaviours generated")
    short = maximal([json.loads(c)["abs"]["hist"] for c in set(gen["tagged"].get("CASE", []))])
    # 3) long random behaviours from TLC's simulation mode
    sim = vp.tlc("MC_Context", "MC_Context_c16sim.cfg", run.workdir, workers=1, timeout=600,
                 simulate="num=%d" % (400 if quick else 4000), extra=["-depth", "14", "-seed", str(run.seed)])
    if sim["violated"]:
        raise vp.ToolError("simulation reported %s" % sim["violated"])
    # in simulation mode the invariant is evaluated on every candidate successor: keep full-depth behaviours only, seeded sample
    long_ = sorted((json.loads(c)["abs"]["hist"] for c in set(sim["tagged"].get("CASE", []))), key=lambda h: json.dumps(h, sort_keys=True))
    long_ = [h for h in long_ if len(h) >= 14]
    nlong = 400 if quick else 4000
    if len(long_) > nlong:
        long_ = rng.sample(long_, nlong)
    cap = 60000 if quick else 200000
    if len(short) > cap:
        short = rng.sample(short, cap)
    behaviours = short + long_
    vp.log("c16: simulation done, %d + %d behaviours" % (len(short), len(long_)))
    if len(behaviours) < 100:
        raise vp.ToolError("too few behaviours")
    run.samples = [long_[0] if long_ else short[0]]
    rows = ctxfam.rows_for(behaviours)
    runtimefam.replay_rows(run, rows, [{} for _ in rows], "Trace_Context", "Trace_Context.cfg", "_c16", key_of=ctxfam.key_of,
                           per_case_timeout=120)
    run.exhaustive = len(short) < cap
    run.notes["behaviours_exhaustive_%d_ops" % (2 if quick else 3)] = len(short)
    run.notes["behaviours_simulated"] = len(long_)
    run.assumptions = ["up to 3 contexts (main, sub, sub-sub or sibling), 4 views (3 in the quick tier's state-space run; scoped to depth 2), 2 accessors among: string / rendered view / Display flavours of two keys, t_format! and t_format_string! formatter accessors; 3 locales",
                       "effects are flushed after every operation, so there is one linearisation order",
                       "under `ssr` render effects do not re-run: a sub-context whose initial-locale signal is wired (the property's exception) is not exercised"]
    return run.finish("all behaviours of 2 (quick) / 3 (thorough) operations after creation (seeded sample above the cap) + seeded simulation behaviours of depth 14, "
                      "replayed on real contexts with the locale of every view and the text of every accessor observed after each step",
                      {"distinct_nontrivial": len(behaviours)})


def replay(run, path):
    raise vp.ToolError("replay: re-run `bin/check C16`; the operation and its arguments are in the replay file")
