-------------------------------- MODULE Subst --------------------------------
(* C06  Foreign keys are pure substitution  (also the value model behind C08, *)
(* C11 and C20).                                                               *)
(*                                                                            *)
(* Abstract project  P = [def, locs, inh, vals]                                *)
(*   P.vals[l][k]  is an entry:                                                *)
(*     [k |-> "null"] | [k |-> "group"]                                        *)
(*     [k |-> "val", v |-> pieces]                                             *)
(*     [k |-> "lit", ty, sym, disp]   a JSON number / boolean: literal type, lexeme, how it is displayed *)
(*     [k |-> "ranges",  ty, ck, b |-> sequence of [alts, v |-> pieces]]       *)
(*     [k |-> "plurals", ty, ck, forms |-> record form -> pieces]              *)
(*   a key absent from a locale is simply not in DOMAIN P.vals[l].             *)
(* pieces extend the value grammar with                                        *)
(*     [k |-> "fk", to |-> key, args |-> sequence of [n |-> name, a |-> arg]]  *)
(*     [k |-> "node", v |-> ranges / plurals entry]   (after substitution)     *)
(*   arg ::= [k |-> "pieces", c |-> pieces]                                    *)
(*         | [k |-> "num", sym, disp, idx, tok]  a JSON number: its lexeme, how *)
(*            Display shows it, its anchor index (ranges), its token (plurals) *)
EXTENDS Value, FallbackOps, RangesOps, PluralsOps, FormatterOps, Json, IOUtils

\* foreign key to the key whose path is spelled tosym; key ids are the Str() of the path symbols ("a", "gDOTs")
\* a variable with a formatter: {{ n, kind(written args) }}.  Substitution leaves the formatter of a variable it does not
\* replace exactly as declared
VarF(n, kind, written) == [k |-> "var", n |-> n, kind |-> kind, written |-> written]
FmtOfVar(p) == IF "kind" \in DOMAIN p THEN Meaning(p.kind, p.written) ELSE NoFormatter
Fk(tosym, args) == [k |-> "fk", to |-> Str(tosym), tosym |-> tosym, args |-> args]
Node(e)        == [k |-> "node", v |-> e]
ArgP(nsym, c)  == [n |-> Str(nsym), nsym |-> nsym, a |-> [k |-> "pieces", c |-> c]]
ArgN(nsym, sym, disp, idx, tok) == [n |-> Str(nsym), nsym |-> nsym, a |-> [k |-> "num", sym |-> sym, disp |-> disp, idx |-> idx, tok |-> tok]]

Good(v) == [ok |-> TRUE, v |-> v]
Bad(why) == [ok |-> FALSE, why |-> why]

\* CLDR categories are data (oracle file written by the driver from direct ICU4X calls)
OracleData == JsonDeserialize(IOEnv.ORACLE)
PluralCat(l, ty, tok) == OracleData.cats[l][ty][tok]

\* ---- which locale's entry a key shows (C03) -----------------------------------------
EntryOf(P, l, k) == IF k \in DOMAIN P.vals[l] THEN P.vals[l][k] ELSE [k |-> "abs"]
PresOf(P, k) == [l \in Range(P.locs) |->
                   LET e == EntryOf(P, l, k) IN IF e.k = "abs" THEN "abs" ELSE IF e.k = "null" THEN "null" ELSE "def"]
InhOf(P) == [l \in Range(P.locs) |-> IF l \in DOMAIN P.inh THEN P.inh[l] ELSE None]
SourceOf(P, l, k) == Source(l, InhOf(P), PresOf(P, k), P.def)

\* ---- substitution of arguments ----------------------------------------------------------
ArgNames(args) == { args[i].n : i \in DOMAIN args }
ArgOf(args, n) == (CHOOSE i \in DOMAIN args : args[i].n = n)
ArgPieces(a) == IF a.k = "pieces" THEN a.c ELSE <<Text(a.disp)>>

\* a count argument written as a string must be a single variable, optionally surrounded by blanks
IsBlankText(p) == p.k = "text" /\ Trim(p.s) = <<>>
SingleVar(c) == LET nb == SelectSeq(c, LAMBDA p : ~IsBlankText(p)) IN
                IF Len(nb) = 1 /\ nb[1].k = "var" THEN nb[1].n ELSE <<>>

RECURSIVE Populate(_, _, _), PopulateNode(_, _, _)
\* pieces -> Good(pieces) | Bad(..)
Populate(ps, args, lr) ==
    IF ps = <<>> THEN Good(<<>>)
    ELSE LET h == Head(ps)
             hd == IF h.k = "var" THEN (IF Str(h.n) \in ArgNames(args) THEN Good(ArgPieces(args[ArgOf(args, Str(h.n))].a)) ELSE Good(<<h>>))
                   ELSE IF h.k = "comp" THEN (LET c == Populate(h.c, args, lr) IN IF c.ok THEN Good(<<Comp(h.n, c.v)>>) ELSE c)
                   ELSE IF h.k = "node" THEN PopulateNode(h.v, args, lr)
                   ELSE Good(<<h>>)
             tl == Populate(Tail(ps), args, lr) IN
         IF ~hd.ok THEN hd ELSE IF ~tl.ok THEN tl ELSE Good(hd.v \o tl.v)

PopBranches(e, args, lr) ==
    LET rs == [i \in DOMAIN e.b |-> Populate(e.b[i].v, args, lr)] IN
    IF \E i \in DOMAIN rs : ~rs[i].ok THEN Bad("branch") ELSE Good([i \in DOMAIN rs |-> [alts |-> e.b[i].alts, v |-> rs[i].v]])
PopForms(e, args, lr) ==
    LET rs == [f \in DOMAIN e.forms |-> Populate(e.forms[f], args, lr)] IN
    IF \E f \in DOMAIN rs : ~rs[f].ok THEN Bad("form") ELSE Good([f \in DOMAIN rs |-> rs[f].v])

KeepNode(e, ck, args, lr) ==
    IF e.k = "ranges"
    THEN LET b == PopBranches(e, args, lr) IN IF b.ok THEN Good(<<Node([e EXCEPT !.ck = ck, !.b = b.v])>>) ELSE b
    ELSE LET f == PopForms(e, args, lr) IN IF f.ok THEN Good(<<Node([e EXCEPT !.ck = ck, !.forms = f.v])>>) ELSE f

PopulateNode(e, args, lr) ==
    IF "count" \notin ArgNames(args) THEN KeepNode(e, e.ck, args, lr)
    ELSE LET a == args[ArgOf(args, "count")].a IN
         IF a.k = "num"
         THEN IF e.k = "ranges"
              THEN LET i == Select(e.b, a.idx) IN
                   IF i = 0 THEN Bad("count-matches-no-branch") ELSE Populate(e.b[i].v, args, lr)
              ELSE Populate(e.forms[FormFor(DOMAIN e.forms, PluralCat(lr, e.ty, a.tok))], args, lr)
         ELSE LET v == SingleVar(a.c) IN
              IF v = <<>> THEN Bad("invalid-count-arg") ELSE KeepNode(e, v, args, lr)

\* ---- resolution ------------------------------------------------------------------------------
\* lr: the locale being rendered (plural rules); l: the locale whose file the text was written in
RECURSIVE RKey(_, _, _, _, _), RPieces(_, _, _, _, _)

RKey(P, lr, l, k, seen) ==
    IF k \notin DOMAIN P.vals[P.def] THEN Bad("missing")
    ELSE LET src == SourceOf(P, l, k) IN
         IF <<src, k>> \in seen THEN Bad("cycle")
         ELSE LET e == P.vals[src][k]
                  sn == seen \cup {<<src, k>>} IN
              IF e.k = "group" THEN Bad("group")
              ELSE IF e.k = "lit" THEN Good(<<Text(e.disp)>>)        \* a number / boolean literal key shows as its text
              ELSE IF e.k = "val" THEN RPieces(P, lr, src, e.v, sn)
              ELSE IF e.k = "ranges"
                   THEN LET rs == [i \in DOMAIN e.b |-> RPieces(P, lr, src, e.b[i].v, sn)] IN
                        IF \E i \in DOMAIN rs : ~rs[i].ok THEN rs[CHOOSE i \in DOMAIN rs : ~rs[i].ok]
                        ELSE Good(<<Node([e EXCEPT !.b = [i \in DOMAIN rs |-> [alts |-> e.b[i].alts, v |-> rs[i].v]]])>>)
                   ELSE LET rs == [f \in DOMAIN e.forms |-> RPieces(P, lr, src, e.forms[f], sn)] IN
                        IF \E f \in DOMAIN rs : ~rs[f].ok THEN rs[CHOOSE f \in DOMAIN rs : ~rs[f].ok]
                        ELSE Good(<<Node([e EXCEPT !.forms = [f \in DOMAIN rs |-> rs[f].v]])>>)

RArgs(P, lr, l, args, seen) ==
    LET rs == [i \in DOMAIN args |->
                 IF args[i].a.k = "pieces" THEN RPieces(P, lr, l, args[i].a.c, seen) ELSE Good(<<>>)] IN
    IF \E i \in DOMAIN rs : ~rs[i].ok THEN rs[CHOOSE i \in DOMAIN rs : ~rs[i].ok]
    ELSE Good([i \in DOMAIN args |-> IF args[i].a.k = "pieces" THEN ArgP(args[i].nsym, rs[i].v) ELSE args[i]])

RPieces(P, lr, l, ps, seen) ==
    IF ps = <<>> THEN Good(<<>>)
    ELSE LET h == Head(ps)
             hd == IF h.k = "fk"
                   THEN LET t == RKey(P, lr, l, h.to, seen)
                            a == RArgs(P, lr, l, h.args, seen) IN
                        IF ~t.ok THEN t ELSE IF ~a.ok THEN a ELSE Populate(t.v, a.v, lr)
                   ELSE IF h.k = "comp" THEN (LET c == RPieces(P, lr, l, h.c, seen) IN IF c.ok THEN Good(<<Comp(h.n, c.v)>>) ELSE c)
                   ELSE Good(<<h>>)
             tl == RPieces(P, lr, l, Tail(ps), seen) IN
         IF ~hd.ok THEN hd ELSE IF ~tl.ok THEN tl ELSE Good(hd.v \o tl.v)

\* the fully substituted value locale l shows for key k (l's own entry; callers use SourceOf for fallback)
Resolved(P, l, k) == RKey(P, l, l, k, {})

\* ---- what a generated accessor shows for a resolved value (L2) -----------------------------------------
\* env    : variable name -> symbols
\* counts : count variable name -> [ty |-> range type | "plural", idx |-> anchor index, tok |-> plural token, sym |-> token symbols]
\* lr     : the locale being rendered (its plural rules apply)
CountShown(c) == IF c.ty = "plural" THEN c.sym ELSE Disp[c.ty][c.idx]
NoBranch == <<"NOBRANCH">>
RECURSIVE RenderX(_, _, _, _)
RenderX(ps, env, counts, lr) ==
    IF ps = <<>> THEN <<>>
    ELSE LET h == Head(ps)
             hd == IF h.k = "text" THEN h.s
                   ELSE IF h.k = "var" THEN (IF Str(h.n) \in DOMAIN counts THEN CountShown(counts[Str(h.n)]) ELSE env[Str(h.n)])
                   ELSE IF h.k = "comp" THEN <<"LT">> \o h.n \o <<"GT">> \o RenderX(h.c, env, counts, lr) \o <<"LT", "SL">> \o h.n \o <<"GT">>
                   ELSE IF h.v.k = "ranges"
                        THEN LET i == Select(h.v.b, counts[Str(h.v.ck)].idx) IN
                             IF i = 0 THEN NoBranch ELSE RenderX(h.v.b[i].v, env, counts, lr)
                        ELSE RenderX(h.v.forms[FormFor(DOMAIN h.v.forms, PluralCat(lr, h.v.ty, counts[Str(h.v.ck)].tok))], env, counts, lr)
             tl == RenderX(Tail(ps), env, counts, lr) IN
         hd \o tl
HasNoBranch(out) == \E i \in DOMAIN out : out[i] = "NOBRANCH"

\* ---- signature of a key (C08) and expected projection ---------------------------------------------
RECURSIVE VarsIn(_), CompsIn(_), CountsIn(_)
VarsIn(ps) == UNION { IF ps[i].k = "var" THEN {Str(ps[i].n)}
                      ELSE IF ps[i].k = "comp" THEN VarsIn(ps[i].c)
                      ELSE IF ps[i].k = "node" THEN
                           (IF ps[i].v.k = "ranges" THEN UNION { VarsIn(ps[i].v.b[j].v) : j \in DOMAIN ps[i].v.b }
                            ELSE UNION { VarsIn(ps[i].v.forms[f]) : f \in DOMAIN ps[i].v.forms })
                      ELSE {} : i \in DOMAIN ps }
CompsIn(ps) == UNION { IF ps[i].k = "comp" THEN {Str(ps[i].n)} \cup CompsIn(ps[i].c)
                       ELSE IF ps[i].k = "node" THEN
                            (IF ps[i].v.k = "ranges" THEN UNION { CompsIn(ps[i].v.b[j].v) : j \in DOMAIN ps[i].v.b }
                             ELSE UNION { CompsIn(ps[i].v.forms[f]) : f \in DOMAIN ps[i].v.forms })
                       ELSE {} : i \in DOMAIN ps }
\* count variables with their kind: <<name, "plural" | range type>>
CountsIn(ps) == UNION { IF ps[i].k = "comp" THEN CountsIn(ps[i].c)
                        ELSE IF ps[i].k = "node" THEN
                             {<<Str(ps[i].v.ck), IF ps[i].v.k = "ranges" THEN ps[i].v.ty ELSE "plural">>}
                             \cup (IF ps[i].v.k = "ranges" THEN UNION { CountsIn(ps[i].v.b[j].v) : j \in DOMAIN ps[i].v.b }
                                   ELSE UNION { CountsIn(ps[i].v.forms[f]) : f \in DOMAIN ps[i].v.forms })
                        ELSE {} : i \in DOMAIN ps }

\* canonical pieces incl. nodes (vocabulary of drv_common::tree with range specs left out)
RECURSIVE CanonX(_), PiecesX(_)
CanonX(v) ==
    IF v = <<>> THEN <<>>
    ELSE LET h == Head(v)  r == CanonX(Tail(v)) IN
         IF h.k = "text"
         THEN IF h.s = <<>> THEN r
              ELSE IF r # <<>> /\ r[1].k = "text" THEN <<Text(h.s \o r[1].s)>> \o Tail(r)
              ELSE <<h>> \o r
         ELSE IF h.k = "comp" THEN <<Comp(h.n, CanonX(h.c))>> \o r
         ELSE <<h>> \o r

PiecesX(v) ==
    LET c == CanonX(v) IN
    [i \in DOMAIN c |->
        IF c[i].k = "text" THEN [k |-> "text", s |-> c[i].s, tab |-> c[i].s]
        ELSE IF c[i].k = "var" THEN [k |-> "var", n |-> Str(c[i].n), f |-> FmtOfVar(c[i])]
        ELSE IF c[i].k = "comp" THEN [k |-> "comp", n |-> Str(c[i].n), c |-> PiecesX(c[i].c)]
        ELSE IF c[i].v.k = "ranges"
             THEN [k |-> "ranges", ty |-> c[i].v.ty, ck |-> Str(c[i].v.ck), b |-> [j \in DOMAIN c[i].v.b |-> PiecesX(c[i].v.b[j].v)]]
             ELSE [k |-> "plurals", rt |-> c[i].v.ty, ck |-> Str(c[i].v.ck), forms |-> [f \in DOMAIN c[i].v.forms |-> PiecesX(c[i].v.forms[f])]]]

TreeX(v) == LET c == CanonX(v) IN
            [lit |-> IF c = <<>> \/ (Len(c) = 1 /\ c[1].k = "text") THEN "String" ELSE "none", c |-> PiecesX(c)]
=============================================================================
