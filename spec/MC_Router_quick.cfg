CONSTANTS
  LocaleSets <- MCLocaleSets
  Bases <- MCBases
  Tables <- MCTables
  Rests <- MCRests
  MaxSwitches = 2
  Words = {"english", "frog", "about", "a-propos", "users", "x", "42"}
SPECIFICATION MCSpec
INVARIANTS ReadsBack EmitCases
PROPERTIES RoundTrip KeepsShape
VIEW NoTrail
CHECK_DEADLOCK FALSE
