"""C13  Locale identifiers round-trip through every representation."""
import json

import vp
from checks import loadfam, runtimefam


TWO_VARIANT_MAIN = r'''#![allow(warnings)]
leptos_i18n::load_locales!();
use i18n::*;
use leptos_i18n::Locale as _;
use std::str::FromStr;
fn main() {
    let all: Vec<String> = Locale::get_all().iter().map(|l| format!("\"{}\"", l.as_str())).collect();
    println!("{{\"op\":\"get_all\",\"res\":[{}],\"default\":\"{}\"}}", all.join(","), Locale::default().as_str());
    for l in Locale::get_all() {
        let back = Locale::from_str(l.as_str()).map(|x| x.as_str().to_string()).unwrap_or_else(|_| "err".to_string());
        println!("{{\"op\":\"forms_min\",\"locale\":\"{}\",\"display\":\"{}\",\"from_str\":\"{}\",\"langid_back\":\"{}\"}}",
                 l.as_str(), l, back, Locale::from_str(&l.as_langid().to_string()).map(|x| x.as_str().to_string()).unwrap_or_else(|_| "err".to_string()));
    }
}
'''


def two_variants(run):
    """a locale whose name carries TWO variant subtags (a valid language identifier, e.g. the Resian dialect of Slovene in the
    Bila sub-dialect: sl-rozaj-biske) through load_locales!(): the project must build and the names round-trip"""
    import os
    import probe
    names = ["en", "sl-rozaj-biske"]
    node = {"t": "map", "e": [["k", {"t": "str", "s": ["x"]}]]}
    project = {"name": "c13twovar", "cfg": {"default": "en", "locales": names}, "files": [[n, node] for n in names], "main": TWO_VARIANT_MAIN}
    results, log = probe.build_and_run(run, [project], tag="_c13")
    r = results["c13twovar"]
    if not r["built"]:
        text = (r["build_log"] or log or "")
        # (the listed known finding is THIS failure; any other reason for not compiling is a different violation)
        why = "sl-rozaj-biske" if "only supports up to one variant tag" in text else "other-build-failure"
        run.violation("l2;two-variant-locale-name;" + why, "a project whose locale name has two variant subtags does not compile",
                      {"locales": names, "build_log": text[-2500:]})
        return
    trace = []
    for ev in r["events"]:
        e = {"ev": "Ident", "case": 1, "set": "two-variants"}
        e.update(ev)
        trace.append(e)
    trace.append({"ev": "End"})
    wd = os.path.join(run.workdir, "l2twovar")
    os.makedirs(wd, exist_ok=True)
    tpath, cpath = os.path.join(wd, "trace.ndjson"), os.path.join(wd, "cases.ndjson")
    vp.write_ndjson(tpath, trace)
    vp.write_ndjson(cpath, [{"id": 1, "abs": {"set": "two-variants", "names": [probe.to_syms(n) for n in names], "name_text": names, "probes": [], "probe_text": []}}])
    summary, rejects, _ = vp.trace_validate("Trace_LocaleId", "Trace_LocaleId.cfg", wd, tpath, cpath)
    run.traces += 1
    run.events += summary["events"]
    for rj in rejects:
        ev = trace[rj["l"] - 1]
        run.violation("l2;two-variant-locale-name;%s;%s" % (ev.get("op"), ev.get("locale")), "tags %s" % sorted(rj["tags"]), {"event": ev})


def check(run):
    cases, res = loadfam.gen_cases(run, "MC_LocaleId", "MC_LocaleId.cfg")
    if len(cases) < 3:
        raise vp.ToolError("MC_LocaleId produced too few cases")
    rows, abss = [], []
    for c in cases:
        a = c["abs"]
        a["name_text"] = [vp.text_of(n) for n in a["names"]]
        a["probe_text"] = [vp.text_of(p) for p in a["probes"]]
        rows.append({"case": len(rows) + 1, "mode": "ident", "set": a["set"], "probes": a["probe_text"]})
        abss.append(a)
    run.samples = [{"set": abss[0]["set"], "names": abss[0]["name_text"], "probes": abss[0]["probe_text"][:8]}]
    runtimefam.replay_rows(run, rows, abss, "Trace_LocaleId", "Trace_LocaleId.cfg", "_ident",
                           key_of=lambda r, ev: "set=%s;op=%s;arg=%s;%s" % (ev.get("set"), ev.get("op"), ev.get("arg", ev.get("locale")), sorted(r["tags"])[0]))
    two_variants(run)
    run.exhaustive = True
    run.assumptions = ["5 locale sets (12-locale load_locales! enum with regions / scripts / variants / near-duplicates / RTL; 4 declare_locales! enums incl. an RTL default and a single-locale set)",
                       "14 mutation operators applied to every name (case, surrounding blanks incl. U+00A0, prefix / suffix, '_' for '-', doubling, inner blank, empty)",
                       "surrounding whitespace is treated as the same name because the generated FromStr deliberately trims",
                       "text direction is compared with CLDR through direct icu_locid_transform calls of the driver"]
    return run.finish("every locale of every set through every representation, every mutated name through every parser; non-trivial: every (set, probe) pair",
                      {"distinct_nontrivial": sum(len(a["probes"]) for a in abss)})


def replay(run, path):
    raise vp.ToolError("replay: re-run `bin/check C13`; set, operation and argument are in the replay file")
