CONSTANTS
  RawConfigs <- MCRawConfigs
  InheritsSeesDefault = TRUE
  MaxLen = 2
  TextVariants = {1, 2, 5, 6, 8, 10, 11, 13, 14, 15}
SPECIFICATION MCSpec
INVARIANTS Conforms EmitCases
PROPERTY Termination
CHECK_DEADLOCK FALSE
