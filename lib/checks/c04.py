"""C04  Ranges render the first branch that contains the count (parser level, L1)."""
import json
import random

import vp
from checks import loadfam


def _key(c, r):
    a = c["abs"]
    return "ty=%s;typed=%s;sp=%s;branches=%s;%s" % (a["ty"], a["typed"], json.dumps(a["sp"], sort_keys=True),
                                                    json.dumps(a["branches"], sort_keys=True), sorted(r["tags"])[0])


def check(run):
    quick = run.tier == "quick"
    cases, res = loadfam.gen_cases(run, "MC_Ranges", "MC_Ranges_%s.cfg" % run.tier, timeout=7200)
    if len(cases) < 100:
        raise vp.ToolError("MC_Ranges produced too few cases")
    rng = random.Random(run.seed)
    cap = 4000 if quick else 60000
    chosen = cases if len(cases) <= cap else rng.sample(cases, cap)
    run.samples = [chosen[0]["abs"], chosen[len(chosen) // 2]["abs"]]
    loadfam.replay_load(run, chosen, "Trace_Ranges", "Trace_Ranges.cfg", build_features=("json", "quote"),
                        variant="json-quote", key_of=_key)
    run.exhaustive = len(chosen) == len(cases)
    run.notes["declarations_generated"] = len(cases)
    run.assumptions = ["counts and bounds range over 6 anchors per numeric type (type minimum, neighbours of 0, type maximum; floats: exactly representable values)",
                       "parse-time selection is observed through `$t(r, {\"count\": n})` keys; run-time selection by generated code is the L2 check",
                       "a declaration the documentation rejects must fail to load; empty ranges and `..MIN` may be rejected"]
    return run.finish("every declaration of the bounded universe (spec forms x fallback variants x spellings x numeric types), "
                      "seeded sample above the cap; non-trivial: declarations the spec classifies as accept with at least one literal count",
                      {"distinct_nontrivial": sum(1 for c in chosen if len(c["files"][0][1]["e"]) > 1)})


def replay(run, path):
    rp = json.load(open(path))["replay"]
    loadfam.replay_load(run, [rp["case"]], "Trace_Ranges", "Trace_Ranges.cfg", build_features=("json", "quote"),
                        variant="json-quote", keep_dirs=True)
    return run.finish("replay of one recorded case")
