"""C03  Missing keys fall back along the inheritance chain, then to default."""
import vp
from checks import loadfam


def run_l2(run, cases, nprojects):
    """generated code: td_string! / td! of every key in every locale must show the text of the fallback source"""
    import os
    import random
    import probe
    rng = random.Random(run.seed)
    def interesting(c):
        inh = c["abs"]["inh"]
        vals = [v for v in inh.values() if v != "none"]
        return len(vals) >= 2
    pool = [c for c in cases if interesting(c)]
    chosen = pool if len(pool) <= nprojects else rng.sample(pool, nprojects)
    projects, meta = [], []
    for pi, c in enumerate(chosen):
        a = c["abs"]
        locs = [a["def"]] + list(a["nondef"])
        calls, info = [], {}
        for j, k in enumerate(a["keys"]):
            paths = [([k["name"]], 0)] if k["kind"] in ("v", "i") else [([k["name"], lf["name"]], q + 1) for q, lf in enumerate(k["leaves"])]
            for path, q in paths:
                for loc in locs:
                    for flav in (("td_string", "td") if j % 7 == 0 else ("td_string",)):
                        cid = len(calls) + 1
                        calls.append({"id": cid, "flav": flav, "locale": loc, "path": path, "args": [["var", "x", '"X1"']] if k["kind"] == "i" else []})
                        info[cid] = {"j": j + 1, "q": q, "locale": loc, "flav": flav}
        projects.append({"name": "c03p%d" % pi, "cfg": c["cfg"], "files": c["files"], "calls": calls})
        meta.append(info)
    results, log = probe.build_and_run(run, projects, tag="_c03")
    trace = []
    for pi, p in enumerate(projects):
        r = results[p["name"]]
        if not r["built"]:
            run.violation("l2-build;inh=%s" % sorted(chosen[pi]["abs"]["inh"].items()), "probe does not compile", {"build_log": r["build_log"] or log[-2000:]})
            continue
        for ev in r["events"]:
            m = meta[pi][ev["call"]]
            trace.append({"ev": "Render", "case": pi + 1, "j": m["j"], "q": m["q"], "locale": m["locale"], "flav": m["flav"],
                          "outcome": ev["outcome"], "out": probe.to_syms(ev["out"])})
    trace.append({"ev": "End"})
    wd = os.path.join(run.workdir, "l2")
    os.makedirs(wd, exist_ok=True)
    tpath, cpath = os.path.join(wd, "trace.ndjson"), os.path.join(wd, "cases.ndjson")
    vp.write_ndjson(tpath, trace)
    vp.write_ndjson(cpath, [{"id": i + 1, "abs": c["abs"]} for i, c in enumerate(chosen)])
    summary, rejects, _ = vp.trace_validate("Trace_Fallback", "Trace_Fallback.cfg", wd, tpath, cpath)
    if summary["consumed"] != summary["events"]:
        raise vp.ToolError("trace spec consumed %s of %s events" % (summary["consumed"], summary["events"]))
    run.traces += len(projects)
    run.events += summary["events"]
    for rj in rejects:
        ev = trace[rj["l"] - 1]
        a = chosen[ev["case"] - 1]["abs"]
        run.violation("l2;inh=%s;key=%s;locale=%s;%s" % (sorted(a["inh"].items()), a["keys"][ev["j"] - 1]["name"], ev["locale"], ev["flav"]),
                      "generated code shows %r" % vp.text_of(ev["out"]), {"event": ev, "inherits": a["inh"]})
    return len(trace) - 1


def check(run):
    cfg = "MC_Fallback_quick.cfg" if run.tier == "quick" else "MC_Fallback_thorough.cfg"
    cases, res = loadfam.gen_cases(run, "MC_Fallback", cfg)
    if not cases:
        raise vp.ToolError("MC_Fallback produced no cases")
    run.samples = [{"inherits": c["abs"]["inh"], "keys": len(c["abs"]["keys"]),
                    "first_key": c["abs"]["keys"][0]} for c in cases[:3]]
    loadfam.replay_load(run, cases, "Trace_Fallback", "Trace_Fallback.cfg",
                        key_of=lambda c, r: "inh=%s;%s" % (sorted(c["abs"]["inh"].items()), sorted(r["tags"])[0]))
    # the same projects inside a namespace
    loadfam.replay_load(run, loadfam.namespaced(cases), "Trace_Fallback", "Trace_Fallback.cfg", tag="_ns",
                        key_of=lambda c, r: "namespaced;inh=%s;%s" % (sorted(c["abs"]["inh"].items()), sorted(r["tags"])[0]))
    # the library built with `suppress_key_warnings`: which diagnostics are silenced must not change where a value comes from
    loadfam.replay_load(run, [dict(c) for c in cases], "Trace_Fallback", "Trace_Fallback.cfg", build_features=("json", "suppress"),
                        variant="json-suppress", tag="_suppress",
                        key_of=lambda c, r: "suppress;inh=%s;%s" % (sorted(c["abs"]["inh"].items()), sorted(r["tags"])[0]))
    run.notes["l2_render_events"] = run_l2(run, cases, 6 if run.tier == "quick" else 60)
    run.exhaustive = True
    run.assumptions = ["L2: a seeded sample of the projects (inherits maps with at least two entries) is compiled with load_locales!() and td_string! (td! on a subset) is executed "
                       "for every key, leaf and locale; the rendered text names the locale whose file it came from",
                       "TLC explores every inherits map over the locale set and every presence pattern of one key;"
                       " the projects replayed carry every pattern as a distinct key",
                       "L1 observes DefaultedLocales and per-locale trees of parse_locales()"]
    return run.finish("one project per inherits map (all maps over the locale set incl. self reference and cycles); "
                      "every presence pattern {defined,null,absent} per locale for value keys and for two-leaf groups; "
                      "a case is non-trivial when at least one locale does not define the key",
                      {"distinct_nontrivial": len(cases)})


def replay(run, path):
    import json
    rp = json.load(open(path))["replay"]
    loadfam.replay_load(run, [rp["case"]], "Trace_Fallback", "Trace_Fallback.cfg", keep_dirs=True)
    return run.finish("replay of one recorded case")
