CONSTANTS
  MaxRest = 3
  Words = {"about", "a-propos", "users", "utilisateurs", "x", "42", "docs", "fr", "en", "usagers", "apropos", "about-us", "english"}
SPECIFICATION RSpec
INVARIANT ExactOnly
CHECK_DEADLOCK FALSE
