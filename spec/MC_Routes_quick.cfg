CONSTANTS
  MaxRest = 2
  Words = {"about", "a-propos", "users", "utilisateurs", "x", "42", "docs", "fr", "usagers", "apropos", "about-us"}
SPECIFICATION RSpec
INVARIANT ExactOnly
CHECK_DEADLOCK FALSE
