"""Shared runner for the properties observed on the runtime crate (drv_runtime)."""
import json
import os
import shutil

import vp


def replay_rows(run, rows, cases_abs, trace_module, trace_cfg, tag, key_of, trace_env=None, per_case_timeout=60):
    """rows: driver input rows (row i has "case": i+1); cases_abs: abstract part per case for the trace spec."""
    wd = os.path.join(run.workdir, "rt" + tag)
    shutil.rmtree(wd, ignore_errors=True)
    os.makedirs(wd)
    binary = vp.cargo_build("drv_runtime")
    cases_path = os.path.join(wd, "cases.ndjson")
    vp.write_ndjson(cases_path, [{"id": i + 1, "abs": a} for i, a in enumerate(cases_abs)])
    drv_in = os.path.join(wd, "drv_in.ndjson")
    vp.write_ndjson(drv_in, rows)
    trace_path = os.path.join(wd, "trace.ndjson")
    vp.run_driver(binary, drv_in, trace_path, len(rows), per_case_timeout=per_case_timeout)
    summary, rejects, res = vp.trace_validate(trace_module, trace_cfg, wd, trace_path, cases_path, env=trace_env)
    if summary["consumed"] != summary["events"]:
        raise vp.ToolError("trace spec %s consumed %s of %s events" % (trace_module, summary["consumed"], summary["events"]))
    run.traces += len(rows)
    run.events += summary["events"]
    run.cases += len(rows)
    if rejects:
        events = vp.read_ndjson(trace_path)
        for r in rejects:
            ev = events[r["l"] - 1]
            run.violation(key_of(r, ev), "event %d tags %s" % (r["l"], sorted(r["tags"])[:4]),
                          {"tags": sorted(r["tags"]), "event": ev, "case": cases_abs[r["case"] - 1] if r.get("case") else None,
                           "trace_module": trace_module, "row": rows[r["case"] - 1] if r.get("case") and len(json.dumps(rows[r["case"] - 1])) < 20000 else None})
    return summary, rejects
