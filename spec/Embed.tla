-------------------------------- MODULE Embed --------------------------------
(* C17  Server-embedded translations survive embedding into the page.          *)
(*  - a render touches translation units (locale, namespace) in any order and   *)
(*    multiplicity; the script lists exactly the touched units, each once;      *)
(*  - every string is written as a JavaScript string literal inside an HTML     *)
(*    <script> element: the text must decode back to the string and must not    *)
(*    contain "</" (which could close the element) nor "<!" (comment / CDATA).  *)
EXTENDS Chars

CONSTANTS Units,          \* set of translation units
          Alphabet, MaxLen

\* ---- escaping for a JS string literal inside <script> -----------------------------------------
Hex == [LT |-> <<"0","0","3","c">>, CTRL1 |-> <<"0","0","0","1">>, LS |-> <<"2","0","2","8">>]
EscChar(c) ==
    CASE c = "QUOT" -> <<"BSL", "QUOT">>
      [] c = "BSL"  -> <<"BSL", "BSL">>
      [] c = "NL"   -> <<"BSL", "n">>
      [] c = "CR"   -> <<"BSL", "r">>
      [] c = "TAB"  -> <<"BSL", "t">>
      [] c \in DOMAIN Hex -> <<"BSL", "u">> \o Hex[c]
      [] OTHER -> <<c>>
RECURSIVE Esc(_)
Esc(s) == IF s = <<>> THEN <<>> ELSE EscChar(Head(s)) \o Esc(Tail(s))

RECURSIVE Dec(_)
Dec(e) ==
    IF e = <<>> THEN <<>>
    ELSE IF Head(e) \in {"QUOT", "NL", "CR", "CTRL1", "LS"} THEN <<"ERR">>
    ELSE IF Head(e) # "BSL" THEN <<Head(e)>> \o Dec(Tail(e))
    ELSE IF Len(e) < 2 THEN <<"ERR">>
    ELSE LET x == e[2]  rest == SubSeq(e, 3, Len(e)) IN
         IF x = "QUOT" THEN <<"QUOT">> \o Dec(rest) ELSE IF x = "BSL" THEN <<"BSL">> \o Dec(rest)
         ELSE IF x = "n" THEN <<"NL">> \o Dec(rest) ELSE IF x = "r" THEN <<"CR">> \o Dec(rest) ELSE IF x = "t" THEN <<"TAB">> \o Dec(rest)
         ELSE IF x = "u" /\ Len(e) >= 6 /\ \E c \in DOMAIN Hex : Hex[c] = SubSeq(e, 3, 6)
              THEN <<CHOOSE c \in DOMAIN Hex : Hex[c] = SubSeq(e, 3, 6)>> \o Dec(SubSeq(e, 7, Len(e)))
         ELSE <<"ERR">>

Forbidden(e) == FindFrom(e, <<"LT", "SL">>, 1) # 0 \/ FindFrom(e, <<"LT", "BANG">>, 1) # 0

\* ---- the machine ------------------------------------------------------------------------------------
VARIABLES s, phase, esc,            \* one string through the escaper
          touched, log, script, emitted   \* units touched (with the order of touches), the emitted list
vars == <<s, phase, esc, touched, log, script, emitted>>

Init == s = <<>> /\ phase = "build" /\ esc = <<>> /\ touched = {} /\ log = <<>> /\ script = <<>> /\ emitted = FALSE
Grow(c) == phase = "build" /\ Len(s) < MaxLen /\ s' = Append(s, c) /\ UNCHANGED <<phase, esc, touched, log, script, emitted>>
Escape  == phase = "build" /\ phase' = "escaped" /\ esc' = Esc(s) /\ UNCHANGED <<s, touched, log, script, emitted>>
Touch(u) == ~emitted /\ Len(log) < 3 /\ touched' = touched \cup {u} /\ log' = Append(log, u) /\ UNCHANGED <<s, phase, esc, script, emitted>>
\* the registry is a map: any order of the units, each once
Emit == /\ ~emitted /\ emitted' = TRUE
        /\ \E order \in { q \in [1..Cardinality(touched) -> touched] : \A i, j \in DOMAIN q : i # j => q[i] # q[j] } : script' = order
        /\ UNCHANGED <<s, phase, esc, touched, log>>
Next == (\E c \in Alphabet : Grow(c)) \/ Escape \/ (\E u \in Units : Touch(u)) \/ Emit

RoundTrip == phase = "escaped" => Dec(esc) = s
ScriptSafe == phase = "escaped" => ~Forbidden(esc)
ExactlyTouched == emitted => Range(script) = touched /\ Len(script) = Cardinality(touched)
=============================================================================
