CONSTANTS
  Alphabet <- MCAlphabet
  Literals <- MCLiterals
  MaxLen = 3
SPECIFICATION MCSpec
INVARIANTS RoundTrip EscapedIsOneLine IndexOK EmitCases
CHECK_DEADLOCK FALSE
