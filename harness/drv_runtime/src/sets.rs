//! C13: identities of generated locale enums.  One generic routine over `L: Locale`, applied to
//! the enum `load_locales!` generated for this crate and to several `declare_locales!` enums.

use std::str::FromStr;

use codee::{Decoder, Encoder};
use leptos_i18n::Locale;
use serde_json::{json, Value};

use crate::Out;

mod set_b {
    leptos_i18n::declare_locales! {
        path: leptos_i18n,
        default: "fr",
        locales: ["fr", "fr-FR", "fr-CA"],
        fr: { k: "x" },
        fr_FR: { k: "x" },
        fr_CA: { k: "x" },
    }
}
mod set_c {
    leptos_i18n::declare_locales! {
        path: leptos_i18n,
        default: "ar",
        locales: ["ar", "he", "fa", "ur", "en"],
        ar: { k: "x" },
        he: { k: "x" },
        fa: { k: "x" },
        ur: { k: "x" },
        en: { k: "x" },
    }
}
mod set_d {
    leptos_i18n::declare_locales! {
        path: leptos_i18n,
        default: "zh-Hans",
        locales: ["zh-Hans", "zh-Hant-TW", "ja"],
        zh_Hans: { k: "x" },
        zh_Hant_TW: { k: "x" },
        ja: { k: "x" },
    }
}
mod set_e {
    leptos_i18n::declare_locales! {
        path: leptos_i18n,
        default: "de",
        locales: ["de"],
        de: { k: "x" },
    }
}

mod set_f {
    leptos_i18n::declare_locales! {
        path: leptos_i18n,
        default: "en",
        locales: ["en", "en-us", "pt-br", "zh-hant"],
        en: { k: "x" },
        en_us: { k: "x" },
        pt_br: { k: "x" },
        zh_hant: { k: "x" },
    }
}

mod set_g {
    leptos_i18n::declare_locales! {
        path: leptos_i18n,
        default: "en",
        locales: ["en", "pa", "pa-PK", "az", "az-IR", "az-Arab", "uz-AF", "ar-EG", "he-IL"],
        en: { k: "x" },
        pa: { k: "x" },
        pa_PK: { k: "x" },
        az: { k: "x" },
        az_IR: { k: "x" },
        az_Arab: { k: "x" },
        uz_AF: { k: "x" },
        ar_EG: { k: "x" },
        he_IL: { k: "x" },
    }
}

mod set_h {
    // valid language identifiers of less usual shapes: the undetermined language, a variant without region, numeric regions,
    // a name in the wrong case
    leptos_i18n::declare_locales! {
        path: leptos_i18n,
        default: "en",
        locales: ["en", "und", "de-1996", "en-001", "es-419", "EN-gb", "ca-valencia"],
        en: { k: "x" },
        und: { k: "x" },
        de_1996: { k: "x" },
        en_001: { k: "x" },
        es_419: { k: "x" },
        EN_gb: { k: "x" },
        ca_valencia: { k: "x" },
    }
}

fn dir_name(d: leptos_i18n::Direction) -> &'static str {
    d.as_str()
}

fn cldr_dir(tag: &str) -> &'static str {
    let ld = icu_locid_transform::LocaleDirectionality::new();
    match tag.parse::<icu_locid::LanguageIdentifier>().ok().and_then(|l| ld.get(&l)) {
        Some(icu_locid_transform::Direction::LeftToRight) => "ltr",
        Some(icu_locid_transform::Direction::RightToLeft) => "rtl",
        _ => "auto",
    }
}

fn ident_ops<L: Locale>(id: &Value, set: &str, probes: &[String], w: &mut Out) {
    let all: Vec<String> = L::get_all().iter().map(|l| l.as_str().to_string()).collect();
    w.emit(&json!({"ev": "Ident", "case": id, "set": set, "op": "get_all", "res": all, "default": L::default().as_str()}));
    for l in L::get_all().iter().copied() {
        let name = l.as_str();
        let display = l.to_string();
        let as_ref_str: &str = l.as_ref();
        let icu = l.as_icu_locale().to_string();
        let langid = l.as_langid().to_string();
        let ser = serde_json::to_string(&l).unwrap_or_else(|e| format!("ERR {}", e));
        let enc = <codee::string::FromToStringCodec as Encoder<L>>::encode(&l).unwrap_or_else(|_| "ERR".to_string());
        w.emit(&json!({"ev": "Ident", "case": id, "set": set, "op": "forms", "locale": name, "display": display, "as_ref": as_ref_str,
                       "icu": icu, "langid": langid, "serde": ser, "cookie": enc,
                       "direction": dir_name(l.direction()), "cldrDir": cldr_dir(name),
                       "icuOfName": name.parse::<icu_locid::Locale>().map(|l| l.to_string()).unwrap_or_else(|_| "unparsable".to_string()),
                       "langidOfName": name.parse::<icu_locid::LanguageIdentifier>().map(|l| l.to_string()).unwrap_or_else(|_| "unparsable".to_string())}));
    }
    for (pi, p) in probes.iter().enumerate() {
        let from_str = match L::from_str(p) {
            Ok(l) => l.as_str().to_string(),
            Err(_) => "err".to_string(),
        };
        let de = match serde_json::from_str::<L>(&serde_json::to_string(p).unwrap()) {
            Ok(l) => l.as_str().to_string(),
            Err(_) => "err".to_string(),
        };
        let cookie = match <codee::string::FromToStringCodec as Decoder<L>>::decode(p.as_str()) {
            Ok(l) => l.as_str().to_string(),
            Err(_) => "err".to_string(),
        };
        w.emit(&json!({"ev": "Ident", "case": id, "set": set, "op": "parse", "pi": pi + 1, "arg": p, "from_str": from_str, "serde": de, "cookie": cookie}));
    }
}

pub fn do_ident(c: &Value, w: &mut Out) {
    let id = c["case"].clone();
    let set = c["set"].as_str().unwrap();
    let probes: Vec<String> = c["probes"].as_array().unwrap().iter().map(|p| p.as_str().unwrap().to_string()).collect();
    match set {
        "A" => {
            ident_ops::<crate::i18n::Locale>(&id, set, &probes, w);
            for l in crate::i18n::Locale::get_all().iter().copied() {
                let (a, d, s) = crate::scoped_forms(l);
                w.emit(&json!({"ev": "Ident", "case": id, "set": set, "op": "scoped_forms", "locale": l.as_str(), "as_str": a, "display": d, "serde": s}));
            }
            for (pi, p) in probes.iter().enumerate() {
                w.emit(&json!({"ev": "Ident", "case": id, "set": set, "op": "scoped_parse", "pi": pi + 1, "arg": p, "from_str": crate::scoped_parse(p)}));
            }
        }
        "B" => ident_ops::<set_b::i18n::Locale>(&id, set, &probes, w),
        "C" => ident_ops::<set_c::i18n::Locale>(&id, set, &probes, w),
        "D" => ident_ops::<set_d::i18n::Locale>(&id, set, &probes, w),
        "E" => ident_ops::<set_e::i18n::Locale>(&id, set, &probes, w),
        "F" => ident_ops::<set_f::i18n::Locale>(&id, set, &probes, w),
        "G" => ident_ops::<set_g::i18n::Locale>(&id, set, &probes, w),
        "H" => ident_ops::<set_h::i18n::Locale>(&id, set, &probes, w),
        other => panic!("unknown set {}", other),
    }
}
