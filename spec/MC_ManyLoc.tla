------------------------------ MODULE MC_ManyLoc ------------------------------
(* C01 / C03 at scale in the number of LOCALES: the view back-end wraps the     *)
(* per-locale match arms in EitherOf types whose arity is bounded, so a project  *)
(* with more locales than that nests them.  One case: N locales, key m with a    *)
(* different interpolated value (text, variable, component) in every locale, key *)
(* h defined in the odd locales only (the default is locale 1) and null in the   *)
(* others.                                                                       *)
EXTENDS Value, Json

CONSTANT N
VARIABLE done

Alpha26 == <<"a","b","c","d","e","f","g","h","i","j","k","l","m","n","o","p","q","r","s","t","u","v","w","x","y","z">>
LocSyms(i) == <<Alpha26[((i - 1) \div 26) + 2], Alpha26[((i - 1) % 26) + 1]>>       \* ba, bb, ... ca, ...
ValueOf(i) == <<Text(<<"L">> \o NatSyms(i) \o <<"SP">>), Var(<<"x">>), Text(<<"SP">>), Comp(<<"b">>, <<Text(<<"i","n">> \o NatSyms(i))>>)>>
FileOfLoc(i) == MapNode(<< <<"m", StrNode(Unparse(ValueOf(i), NoWs))>>,
                          <<"h", IF i % 2 = 1 THEN StrNode(Unparse(ValueOf(i), NoWs)) ELSE NullNode>> >>)
Case == [family |-> "many-locales",
         abs |-> [names |-> <<"m", "h">>, values |-> [i \in 1..N |-> ValueOf(i)], locs |-> [i \in 1..N |-> Str(LocSyms(i))]],
         cfg |-> [default |-> Str(LocSyms(1)), locales |-> [i \in 1..N |-> Str(LocSyms(i))]],
         files |-> [i \in 1..N |-> <<Str(LocSyms(i)), FileOfLoc(i)>>]]
Init == done = FALSE
Next == ~done /\ PrintT(<<"CASE", ToJson(Case)>>) /\ done' = TRUE
Spec == Init /\ [][Next]_done
\* which value a locale shows for a key
Shown(key, i) == IF key = "m" \/ i % 2 = 1 THEN i ELSE 1
=============================================================================
