CONSTANTS
  Locs = {"en", "fr", "de"}
  Default = "en"
  HeaderSpellings = {"tight", "spaced", "q", "star"}
  HeaderToks = {"fr", "it", "deAT", "bad"}
  MaxCtx = 2
  MaxViews = 2
  MaxAccs = 0
  Mode = "c15"
  AccSet = "base"
  SubVariants = "full"
  MaxHist = 2
SPECIFICATION MCSpec
INVARIANTS TypeOK EmitCases
PROPERTIES CreateIsolation
CHECK_DEADLOCK FALSE
