\* spec mutant: the shared per-form slot of the pinned implementation; TLC must find a counterexample
CONSTANTS
  MemberSets <- MCMemberSets
  SharedSlot = TRUE
SPECIFICATION MCSpec
INVARIANTS Conforms
CHECK_DEADLOCK FALSE
