SPECIFICATION Spec
INVARIANT NonVacuous
CHECK_DEADLOCK FALSE
