CONSTANTS
  RawConfigs <- MCRawConfigs
  InheritsSeesDefault = TRUE
  MaxLen = 3
  TextVariants = {1, 2, 3, 4, 5, 6, 7, 8, 9, 10, 11, 12, 13, 14, 15, 16}
SPECIFICATION MCSpec
INVARIANTS Conforms EmitCases
PROPERTY Termination
CHECK_DEADLOCK FALSE
