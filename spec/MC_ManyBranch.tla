----------------------------- MODULE MC_ManyBranch -----------------------------
(* C04 at scale in the number of BRANCHES: the view back-end wraps the arms of a  *)
(* range in EitherOf types of bounded arity, so a range with more branches nests  *)
(* them.  One u8 range with N exact branches 1..N (each with its own text) and a  *)
(* fallback; every u8 value is rendered.                                          *)
EXTENDS Chars, Json

CONSTANT N
VARIABLE done
BranchText(i) == <<"b">> \o NatSyms(i)
Decl == SeqNode(<< StrNode(<<"u","8">>) >> \o [i \in 1..N |-> SeqNode(<< StrNode(BranchText(i)), StrNode(NatSyms(i)) >>)] \o << SeqNode(<< StrNode(<<"o","t","h","e","r">>) >>) >>)
Case == [family |-> "many-branches", abs |-> [n |-> N],
         cfg |-> [default |-> "en", locales |-> <<"en">>],
         files |-> << <<"en", MapNode(<< <<"r", Decl>> >>)>> >>]
Init == done = FALSE
Next == ~done /\ PrintT(<<"CASE", ToJson(Case)>>) /\ done' = TRUE
Spec == Init /\ [][Next]_done
\* what count c shows
Shown(c) == IF c \in 1..N THEN BranchText(c) ELSE <<"o","t","h","e","r">>
=============================================================================
