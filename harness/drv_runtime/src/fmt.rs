//! C18: formatter outputs of generated accessors vs direct ICU4X calls with the options the
//! specification derived from the formatter text.
use std::str::FromStr;
use std::sync::{Arc, Barrier, Mutex};

use fixed_decimal::FixedDecimal;
use icu_calendar::{AnyCalendar, Date, DateTime, Time};
use leptos_i18n::Locale as _;
use serde_json::{json, Value};
use writeable::Writeable;

use crate::i18n::Locale;
use crate::Out;

include!("fmt_keys.rs");

pub fn num() -> FixedDecimal {
    FixedDecimal::from_str("1234567.891").unwrap()
}
pub fn date() -> Date<AnyCalendar> {
    Date::try_new_iso_date(2024, 12, 31).unwrap().to_any()
}
pub fn time() -> Time {
    Time::try_new(14, 34, 28, 0).unwrap()
}
pub fn datetime() -> DateTime<AnyCalendar> {
    DateTime::new(date(), time())
}
pub fn list() -> [&'static str; 3] {
    ["A", "B", "C"]
}

fn date_len(s: &str) -> icu_datetime::options::length::Date {
    use icu_datetime::options::length::Date as D;
    match s {
        "full" => D::Full,
        "long" => D::Long,
        "medium" => D::Medium,
        _ => D::Short,
    }
}
fn time_len(s: &str) -> icu_datetime::options::length::Time {
    use icu_datetime::options::length::Time as T;
    match s {
        "full" => T::Full,
        "long" => T::Long,
        "medium" => T::Medium,
        _ => T::Short,
    }
}

/// direct ICU4X formatting, not going through leptos_i18n
pub fn icu_direct(kind: &str, args: &[String], locale: &str) -> String {
    icu_direct_val(kind, args, locale, &Val { num: num(), date: date(), time: time(), list: list().iter().map(|s| s.to_string()).collect() })
}

/// the value a formatter is applied to (only the member of the formatter's kind is looked at)
pub struct Val {
    pub num: FixedDecimal,
    pub date: Date<AnyCalendar>,
    pub time: Time,
    pub list: Vec<String>,
}

pub fn date_of(t: &str) -> Date<AnyCalendar> {
    let p: Vec<i32> = t.split('-').map(|x| x.parse().unwrap()).collect();
    Date::try_new_iso_date(p[0], p[1] as u8, p[2] as u8).unwrap().to_any()
}
pub fn time_of(t: &str) -> Time {
    let p: Vec<u8> = t.split(':').map(|x| x.parse().unwrap()).collect();
    Time::try_new(p[0], p[1], p[2], 0).unwrap()
}
pub fn datetime_of(t: &str) -> DateTime<AnyCalendar> {
    let (a, b) = t.split_once('T').unwrap();
    DateTime::new(date_of(a), time_of(b))
}

impl Val {
    /// `text`: a decimal number, `YYYY-MM-DD`, `HH:MM:SS`, `YYYY-MM-DDTHH:MM:SS`, or the items of a list joined by `,`
    pub fn parse(kind: &str, text: &str) -> Val {
        let mut v = Val { num: num(), date: date(), time: time(), list: vec![] };
        let (d, tm) = (date_of, time_of);
        match kind {
            "number" | "currency" => v.num = FixedDecimal::from_str(text).unwrap(),
            "date" => v.date = d(text),
            "time" => v.time = tm(text),
            "datetime" => {
                let (a, b) = text.split_once('T').unwrap();
                v.date = d(a);
                v.time = tm(b);
            }
            "list" => v.list = if text.is_empty() { vec![] } else { text.split(',').map(|x| x.to_string()).collect() },
            _ => {}
        }
        v
    }
    pub fn datetime(&self) -> DateTime<AnyCalendar> {
        let iso = self.date.to_iso();
        DateTime::new(Date::try_new_iso_date(iso.year().number, iso.month().ordinal as u8, iso.day_of_month().0 as u8).unwrap().to_any(), self.time)
    }
}

pub fn icu_direct_val(kind: &str, args: &[String], locale: &str, val: &Val) -> String {
    let loc: icu_locid::Locale = locale.parse().unwrap();
    let dl = (&loc).into();
    match kind {
        "number" => {
            use icu_decimal::options::{FixedDecimalFormatterOptions, GroupingStrategy as G};
            let g = match args[0].as_str() {
                "never" => G::Never,
                "always" => G::Always,
                "min2" => G::Min2,
                _ => G::Auto,
            };
            let f = icu_decimal::FixedDecimalFormatter::try_new(&dl, FixedDecimalFormatterOptions::from(g)).unwrap();
            f.format(&val.num).write_to_string().into_owned()
        }
        "date" => {
            let f = icu_datetime::DateFormatter::try_new_with_length(&dl, date_len(&args[0])).unwrap();
            f.format_to_string(&val.date).unwrap()
        }
        "time" => {
            let f = icu_datetime::TimeFormatter::try_new_with_length(&dl, time_len(&args[0])).unwrap();
            f.format_to_string(&val.time)
        }
        "datetime" => {
            let bag = icu_datetime::options::length::Bag::from_date_time_style(date_len(&args[0]), time_len(&args[1]));
            let f = icu_datetime::DateTimeFormatter::try_new(&dl, bag.into()).unwrap();
            f.format_to_string(&val.datetime()).unwrap()
        }
        "list" => {
            use icu_list::{ListFormatter, ListLength as L};
            let len = match args[1].as_str() {
                "short" => L::Short,
                "narrow" => L::Narrow,
                _ => L::Wide,
            };
            let f = match args[0].as_str() {
                "and" => ListFormatter::try_new_and_with_length(&dl, len),
                "or" => ListFormatter::try_new_or_with_length(&dl, len),
                _ => ListFormatter::try_new_unit_with_length(&dl, len),
            }
            .unwrap();
            f.format_to_string(val.list.iter())
        }
        "currency" => {
            use icu_experimental::dimension::currency::formatter::{CurrencyCode, CurrencyFormatter};
            use icu_experimental::dimension::currency::options::{CurrencyFormatterOptions, Width};
            let w = if args[0] == "narrow" { Width::Narrow } else { Width::Short };
            let f = CurrencyFormatter::try_new(&dl, CurrencyFormatterOptions::from(w)).unwrap();
            let code = CurrencyCode(tinystr::TinyAsciiStr::from_str(&args[1]).unwrap());
            f.format_fixed_decimal(&val.num, code).write_to_string().into_owned()
        }
        other => format!("unknown kind {}", other),
    }
}

pub fn do_fmt(c: &Value, w: &mut Out) {
    let id = c["case"].clone();
    let calls: Vec<Value> = c["calls"].as_array().unwrap().clone();
    let threads = c["threads"].as_u64().unwrap_or(1) as usize;
    let results: Arc<Mutex<Vec<Value>>> = Arc::new(Mutex::new(vec![]));
    let barrier = Arc::new(Barrier::new(threads));
    let mut handles = vec![];
    for t in 0..threads {
        let calls = calls.clone();
        let results = results.clone();
        let barrier = barrier.clone();
        let id = id.clone();
        handles.push(std::thread::spawn(move || {
            barrier.wait();
            let n = calls.len();
            for j in 0..n {
                // every thread walks the calls in a different rotation
                let call = &calls[(j + t * 7) % n];
                let key = call["key"].as_str().unwrap();
                let locale = call["locale"].as_str().unwrap();
                let l = Locale::from_str(locale).unwrap();
                let out = match crate::run_caught(|| render_key(l, key)) {
                    Ok(Some(s)) => s,
                    Ok(None) => "NOKEY".to_string(),
                    Err(msg) => format!("PANIC {}", msg),
                };
                results.lock().unwrap().push(json!({"ev": "Fmt", "case": id, "thread": t, "key": key, "locale": l.as_str(), "via": "key", "out": out}));
                let out2 = match crate::run_caught(|| render_tformat(l, key)) {
                    Ok(Some(s)) => s,
                    Ok(None) => "NOKEY".to_string(),
                    Err(msg) => format!("PANIC {}", msg),
                };
                results.lock().unwrap().push(json!({"ev": "Fmt", "case": id, "thread": t, "key": key, "locale": l.as_str(), "via": "td_format_string", "out": out2}));
                // the view and the Display back-ends of the same formatter
                for (via, f) in [("td", render_view as fn(Locale, &str) -> Option<String>), ("td_format", render_tformat_view), ("td_display|td_format_display", render_display)] {
                    let out3 = match crate::run_caught(|| f(l, key)) {
                        Ok(Some(s)) => s,
                        Ok(None) => "NOKEY".to_string(),
                        Err(msg) => format!("PANIC {}", msg),
                    };
                    results.lock().unwrap().push(json!({"ev": "Fmt", "case": id, "thread": t, "key": key, "locale": l.as_str(), "via": via, "out": out3}));
                }
            }
        }));
    }
    for h in handles {
        let _ = h.join();
    }
    // oracle values are computed after the fact, on this thread
    for mut ev in results.lock().unwrap().drain(..) {
        let key = ev["key"].as_str().unwrap().to_string();
        let call = calls.iter().find(|c| c["key"] == key.as_str() && c["locale"] == ev["locale"]).unwrap();
        let args: Vec<String> = call["args"].as_array().unwrap().iter().map(|a| a.as_str().unwrap().to_string()).collect();
        let kind = call["kind"].as_str().unwrap();
        ev["kind"] = json!(kind);
        ev["args"] = json!(args);
        let icu = crate::run_caught(|| icu_direct(kind, &args, ev["locale"].as_str().unwrap())).unwrap_or_else(|m| format!("ORACLE-PANIC {}", m));
        // the Display event carries two renderings of the same text
        ev["icu"] = if ev["via"].as_str().unwrap().contains('|') { json!(format!("{}|{}", icu, icu)) } else { json!(icu) };
        w.emit(&ev);
    }
}

/// C18, values: a formatter key applied to a value of a given Rust type, written as text in the case
pub fn do_fmtval(c: &Value, w: &mut Out) {
    let id = c["case"].clone();
    for call in c["calls"].as_array().unwrap() {
        let key = call["key"].as_str().unwrap();
        let locale = call["locale"].as_str().unwrap();
        let kind = call["kind"].as_str().unwrap();
        let ty = call["ty"].as_str().unwrap();
        let text = call["text"].as_str().unwrap();
        let args: Vec<String> = call["args"].as_array().unwrap().iter().map(|a| a.as_str().unwrap().to_string()).collect();
        let l = Locale::from_str(locale).unwrap();
        let val = Val::parse(kind, text);
        let icu = crate::run_caught(|| icu_direct_val(kind, &args, locale, &val)).unwrap_or_else(|m| format!("ORACLE-PANIC {}", m));
        for via in ["key", "td_format_string", "td"] {
            let out = match crate::run_caught(|| render_val(l, key, via, ty, text)) {
                Ok(Some(s)) => s,
                Ok(None) => "NOKEY".to_string(),
                Err(msg) => format!("PANIC {}", msg),
            };
            w.emit(&json!({"ev": "FmtVal", "case": id, "key": key, "locale": l.as_str(), "via": via, "kind": kind, "args": args, "ty": ty, "text": text, "out": out, "icu": icu}));
        }
    }
}
