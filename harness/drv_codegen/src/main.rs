//! drv_codegen: runs the *real* code generator of leptos_i18n_macro in-process.  The macro crate
//! cannot be linked as a library (proc-macro), so its `load_locales` and `utils` modules are
//! included by path; if that layout changes this driver fails to build (a tool error, never a verdict).
#![allow(dead_code, unused_imports, clippy::all)]
extern crate proc_macro;

#[path = "/repo/leptos_i18n_macro/src/load_locales/mod.rs"]
pub(crate) mod load_locales;
#[path = "/repo/leptos_i18n_macro/src/utils/mod.rs"]
pub(crate) mod utils;

use serde_json::{json, Value};
use std::io::Write;

fn run_caught<T>(f: impl FnOnce() -> T) -> Result<T, String> {
    match std::panic::catch_unwind(std::panic::AssertUnwindSafe(f)) {
        Ok(v) => Ok(v),
        Err(e) => Err(if let Some(s) = e.downcast_ref::<&str>() {
            s.to_string()
        } else if let Some(s) = e.downcast_ref::<String>() {
            s.clone()
        } else {
            "<non-string panic>".to_string()
        }),
    }
}

fn fnv(s: &str) -> String {
    let mut h: u64 = 0xcbf29ce484222325;
    for b in s.bytes() {
        h ^= b as u64;
        h = h.wrapping_mul(0x100000001b3);
    }
    format!("{:016x}", h)
}

/// The `note = "..."` strings of the `#[deprecated(..)]` items in the generated code (how the macro shows warnings on stable).
fn deprecated_notes(tokens: &str) -> Vec<String> {
    let mut out = vec![];
    let mut rest = tokens;
    while let Some(i) = rest.find("deprecated (note = ") {
        rest = &rest[i + "deprecated (note = ".len()..];
        // a Rust string literal: parse it with syn so that escapes are undone exactly as the compiler would
        let mut end = None;
        let bytes = rest.as_bytes();
        let mut j = 1;
        while j < bytes.len() {
            match bytes[j] {
                b'\\' => j += 2,
                b'"' => { end = Some(j); break; }
                _ => j += 1,
            }
        }
        let Some(end) = end else { break };
        let after = rest[end + 1..].trim_start();
        // only the warning items: `#[deprecated(note = "..")] fn w<N>() {..}` (the generated module has other deprecated items)
        let is_warning = after.strip_prefix(")").map(str::trim_start).and_then(|a| a.strip_prefix("]")).map(str::trim_start)
            .and_then(|a| a.strip_prefix("fn w")).is_some_and(|a| a.chars().next().is_some_and(|c| c.is_ascii_digit()));
        if is_warning {
            if let Ok(lit) = syn::parse_str::<syn::LitStr>(&rest[..=end]) {
                out.push(lit.value());
            }
        }
        rest = &rest[end + 1..];
    }
    out
}

fn main() {
    let args: Vec<String> = std::env::args().collect();
    let mut cases = String::new();
    let mut out = String::new();
    let mut skip = 0usize;
    let mut i = 1;
    while i < args.len() {
        match args[i].as_str() {
            "--cases" => { cases = args[i + 1].clone(); i += 2; }
            "--out" => { out = args[i + 1].clone(); i += 2; }
            "--skip" => { skip = args[i + 1].parse().unwrap(); i += 2; }
            _ => panic!("unknown arg {}", args[i]),
        }
    }
    std::panic::set_hook(Box::new(|_| {}));
    let f = std::fs::OpenOptions::new().create(true).write(true).append(skip > 0).truncate(skip == 0).open(&out).expect("open out");
    let mut w = std::io::BufWriter::new(f);
    let mut emit = |v: &Value| {
        serde_json::to_writer(&mut w, v).unwrap();
        w.write_all(b"\n").unwrap();
        w.flush().unwrap();
    };
    let txt = std::fs::read_to_string(&cases).expect("cases");
    for (n, line) in txt.lines().enumerate() {
        if n < skip || line.trim().is_empty() {
            continue;
        }
        let c: Value = serde_json::from_str(line).expect("case json");
        let id = c["case"].clone();
        emit(&json!({"ev": "Begin", "case": id, "n": n}));
        let dir = c["dir"].as_str().unwrap();
        std::env::set_var("CARGO_MANIFEST_DIR", dir);
        let r = run_caught(|| load_locales::load_locales().map(|ts| ts.to_string()).map_err(|e| e.to_string()));
        let ev = match r {
            Ok(Ok(text)) => json!({"ev": "Codegen", "case": id, "outcome": "Ok", "hash": fnv(&text), "len": text.len(), "notes": deprecated_notes(&text)}),
            Ok(Err(e)) => json!({"ev": "Codegen", "case": id, "outcome": "Err", "errText": e}),
            Err(msg) => json!({"ev": "Codegen", "case": id, "outcome": "Panic", "panic": msg}),
        };
        emit(&ev);
    }
    emit(&json!({"ev": "End"}));
}
