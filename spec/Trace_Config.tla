---------------------------- MODULE Trace_Config ----------------------------
(* Validates ConfigFile::new and the set of files parse_locales read against *)
(* Normalise / FilesToRead.                                                   *)
EXTENDS ConfigOps, Json, IOUtils

Rec   == ndJsonDeserialize(IOEnv.TRACE)
Cases == ndJsonDeserialize(IOEnv.CASES)
Ext   == IOEnv.EXT

VARIABLE l

CfgTags(got, n) ==
    IF ~n.ok THEN (IF got.outcome = "Err" THEN {} ELSE {"config-expected-error-got:" \o got.outcome})
    ELSE IF got.outcome # "Ok" THEN {"config-outcome:" \o got.outcome}
    ELSE (IF got.default # n.v.default THEN {"default"} ELSE {})
         \cup (IF got.locales = <<>> \/ got.locales[1] # n.v.default THEN {"default-not-first"} ELSE {})
         \cup (IF Range(got.locales) # n.v.locales THEN {"locale-set"} ELSE {})
         \cup (IF HasDup(got.locales) THEN {"locale-dup"} ELSE {})
         \cup (IF got.namespaces # (IF n.v.namespaces.p THEN n.v.namespaces.v ELSE None) THEN {"namespaces"} ELSE {})
         \cup (IF got.dir # n.v.dir THEN {"dir"} ELSE {})
         \cup (IF { <<k, got.inherits[k]>> : k \in DOMAIN got.inherits } # n.v.inherits THEN {"inherits"} ELSE {})

LoadTags(got, n, drop) ==
    IF ~n.ok \/ drop THEN (IF got.outcome = "Err" THEN {} ELSE {"load-expected-error-got:" \o got.outcome})
    ELSE IF got.outcome # "Ok" THEN {"load-outcome:" \o got.outcome}
    ELSE IF Range(got.files) # { n.v.dir \o "/" \o f \o "." \o Ext : f \in FilesToRead(n.v) } THEN {"files-read"}
    ELSE IF HasDup(got.files) THEN {"files-read-twice"} ELSE {}

\* the build-script API (TranslationsInfos::parse_at_dir): same verdict, the same files (files_paths is what
\* rerun_if_locales_changed prints), the configured locales (default first) and namespaces
BuildTags(ev, n, drop) ==
    IF ~n.ok \/ drop THEN (IF ev.outcome = "Err" THEN {} ELSE {"build-expected-error-got:" \o ev.outcome})
    ELSE IF ev.outcome # "Ok" THEN {"build-outcome:" \o ev.outcome}
    ELSE (IF Range(ev.res.files) # { n.v.dir \o "/" \o f \o "." \o Ext : f \in FilesToRead(n.v) } THEN {"build-files"} ELSE {})
         \cup (IF HasDup(ev.res.files) THEN {"build-files-twice"} ELSE {})
         \cup (IF Range(ev.res.locales) # n.v.locales \/ HasDup(ev.res.locales) \/ ev.res.locales[1] # n.v.default THEN {"build-locales"} ELSE {})
         \cup (IF ev.res.namespaces # (IF n.v.namespaces.p THEN n.v.namespaces.v ELSE None) THEN {"build-namespaces"} ELSE {})

Tags(ev) ==
    IF ev.ev = "Build" THEN LET a == Cases[ev.case].abs IN BuildTags(ev, Normalise(a.raw), a.drop)
    ELSE IF ev.ev = "Load"
    THEN LET a == Cases[ev.case].abs
             n == Normalise(a.raw) IN
         CfgTags(ev.cfg, n) \cup LoadTags(ev.load, n, a.drop)
    ELSE IF ev.ev = "Crash" THEN {"crash:" \o ev.outcome}
    ELSE {}

TraceInit == l = 1
TraceNext ==
    /\ l <= Len(Rec)
    /\ l' = l + 1
    /\ LET tags == Tags(Rec[l]) IN
         tags = {} \/ PrintT(<<"REJECT", ToJson([l |-> l, case |-> Rec[l].case, tags |-> tags])>>)
TraceSpec == TraceInit /\ [][TraceNext]_l

Post == PrintT(<<"SUMMARY", ToJson([events |-> Len(Rec), consumed |-> TLCGet("stats").diameter - 1])>>)
=============================================================================
