----------------------------- MODULE MC_ReadOrder -----------------------------
EXTENDS ReadOrder
Toks == {"x", "5", "null"}
Files == UNION { [S -> Toks] : S \in SUBSET {"a", "b", "c"} }
MCContents == { [x \in {"en", "fr"} |-> IF x = "en" THEN e ELSE f] : e \in { g \in Files : \A k \in DOMAIN g : g[k] # "null" }, f \in Files }
MCFormats == {"json", "yaml", "json5"}
MCSpec == Init /\ [][Next]_vars /\ WF_vars(Next)
=============================================================================
