//! drv_runtime: replays TLC-generated behaviours into the real `leptos_i18n` runtime, natively
//! (feature `ssr`): locale negotiation, locale identities, contexts.  Logs arguments and the
//! observable state after every step; never an expectation.
#![allow(non_camel_case_types)]

use std::str::FromStr;
use std::sync::{Arc, Mutex, OnceLock};

use icu_locid::{LanguageIdentifier, Locale as IcuLocale};
use leptos::prelude::*;
use leptos_i18n::context::{init_i18n_context_with_options, init_i18n_subcontext_with_options, I18nContextOptions, UseLocalesOptions};
use leptos_i18n::{I18nContext, Locale as LocaleTrait, LocaleKeys};
use serde_json::{json, Value};

leptos_i18n::load_locales!();
use i18n::*;

mod sets;
mod fmt;

// ------------------------------------------------------------------------------------------
// a locale type whose set of supported locales is chosen at run time: exercises the provided
// methods of the `Locale` trait (find_locale / find_matchs) on arbitrary supported sets
// ------------------------------------------------------------------------------------------
struct Entry {
    tag: &'static str,
    icu: IcuLocale,
}
static UNIVERSE: OnceLock<Vec<Entry>> = OnceLock::new();
static CURRENT: Mutex<(&'static [Dyn], u8)> = Mutex::new((&[], 0));

#[derive(Copy, Clone, Debug, Hash, PartialEq, Eq)]
struct Dyn(u8);
#[derive(Copy, Clone)]
struct DynKeys;

impl Default for Dyn {
    fn default() -> Self {
        Dyn(CURRENT.lock().unwrap().1)
    }
}
impl FromStr for Dyn {
    type Err = ();
    fn from_str(s: &str) -> Result<Self, ()> {
        let all = CURRENT.lock().unwrap().0;
        all.iter().copied().find(|d| UNIVERSE.get().unwrap()[d.0 as usize].tag == s.trim()).ok_or(())
    }
}
impl AsRef<LanguageIdentifier> for Dyn {
    fn as_ref(&self) -> &LanguageIdentifier {
        &UNIVERSE.get().unwrap()[self.0 as usize].icu.id
    }
}
impl AsRef<IcuLocale> for Dyn {
    fn as_ref(&self) -> &IcuLocale {
        &UNIVERSE.get().unwrap()[self.0 as usize].icu
    }
}
impl AsRef<str> for Dyn {
    fn as_ref(&self) -> &str {
        UNIVERSE.get().unwrap()[self.0 as usize].tag
    }
}
impl AsRef<Dyn> for Dyn {
    fn as_ref(&self) -> &Dyn {
        self
    }
}
impl std::fmt::Display for Dyn {
    fn fmt(&self, f: &mut std::fmt::Formatter<'_>) -> std::fmt::Result {
        f.write_str(UNIVERSE.get().unwrap()[self.0 as usize].tag)
    }
}
impl serde::Serialize for Dyn {
    fn serialize<S: serde::Serializer>(&self, s: S) -> Result<S::Ok, S::Error> {
        s.serialize_str(UNIVERSE.get().unwrap()[self.0 as usize].tag)
    }
}
impl<'de> serde::Deserialize<'de> for Dyn {
    fn deserialize<D: serde::Deserializer<'de>>(d: D) -> Result<Self, D::Error> {
        let s = String::deserialize(d)?;
        Ok(Dyn::from_str(&s).unwrap_or_default())
    }
}
impl LocaleKeys for DynKeys {
    type Locale = Dyn;
    fn from_locale(_: Dyn) -> Self {
        DynKeys
    }
}
impl LocaleTrait for Dyn {
    type Keys = DynKeys;
    type TranslationUnitId = ();
    fn as_str(self) -> &'static str {
        UNIVERSE.get().unwrap()[self.0 as usize].tag
    }
    fn as_icu_locale(self) -> &'static IcuLocale {
        &UNIVERSE.get().unwrap()[self.0 as usize].icu
    }
    fn direction(self) -> leptos_i18n::Direction {
        leptos_i18n::Direction::Auto
    }
    fn get_all() -> &'static [Dyn] {
        CURRENT.lock().unwrap().0
    }
    fn to_base_locale(self) -> Dyn {
        self
    }
    fn from_base_locale(l: Dyn) -> Dyn {
        l
    }
}

fn dyn_index(tag: &str) -> u8 {
    let uni = UNIVERSE.get().unwrap();
    uni.iter().position(|e| e.tag == tag).unwrap_or_else(|| panic!("tag {} not in universe", tag)) as u8
}

fn do_negotiate(c: &Value, w: &mut Out) {
    let id = c["case"].clone();
    let avail: Vec<Dyn> = c["avail"].as_array().unwrap().iter().map(|t| Dyn(dyn_index(t.as_str().unwrap()))).collect();
    let leaked: &'static [Dyn] = Box::leak(avail.clone().into_boxed_slice());
    *CURRENT.lock().unwrap() = (leaked, avail[0].0);
    {
        // the enum generated for this crate's own project (its manifest does not list the default locale among `locales`)
        use leptos_i18n::Locale as _;
        for req in [vec![], vec!["tlh".to_string()], vec!["not a tag".to_string(), "xx-YY".to_string()]] {
            let chosen = match run_caught(|| i18n::Locale::find_locale(&req)) {
                Ok(l) => json!(l.as_str()),
                Err(_) => json!("PANIC"),
            };
            w.emit(&json!({"ev": "Negotiate", "case": id, "api": "generated enum, no match", "req": req, "chosen": chosen}));
        }
    }
    for req in c["reqs"].as_array().unwrap() {
        let tags: Vec<String> = req.as_array().unwrap().iter().map(|t| t.as_str().unwrap().to_string()).collect();
        let r = run_caught(|| Dyn::find_locale(&tags));
        let chosen = match r {
            Ok(d) => json!(d.as_str()),
            Err(_) => json!("PANIC"),
        };
        w.emit(&json!({"ev": "Negotiate", "case": id, "api": "find_locale", "req": tags, "chosen": chosen}));
        // the same request as the entries of an `Accept-Language: a, b, c` list arrive (a space in front of all but the first)
        if tags.len() > 1 {
            let spaced: Vec<String> = tags.iter().enumerate().map(|(i, t)| if i == 0 { t.clone() } else { format!(" {}", t) }).collect();
            let chosen = match run_caught(|| Dyn::find_locale(&spaced)) {
                Ok(d) => json!(d.as_str()),
                Err(_) => json!("PANIC"),
            };
            w.emit(&json!({"ev": "Negotiate", "case": id, "api": "find_locale (entries as split from a header)", "req": tags, "chosen": chosen}));
        }
        if tags.len() == 1 {
            if let Ok(langid) = tags[0].parse::<LanguageIdentifier>() {
                let m = run_caught(|| Dyn::find_matchs(&langid));
                let ms = match m {
                    Ok(v) => json!(v.iter().map(|d| d.as_str()).collect::<Vec<_>>()),
                    Err(_) => json!(["PANIC"]),
                };
                w.emit(&json!({"ev": "Negotiate", "case": id, "api": "find_matchs", "req": tags, "matches": ms}));
            }
        }
    }
}

// ------------------------------------------------------------------------------------------
// contexts (C15 / C16)
// ------------------------------------------------------------------------------------------
type Sub = i18n::subkeys::sk_sub::sub_subkeys;
type Deep = i18n::subkeys::sk_sub::subkeys::sk_deep::deep_subkeys;

#[derive(Clone, Copy)]
enum View {
    Root(I18nContext<Locale>),
    Sub(I18nContext<Locale, Sub>),
    Deep(I18nContext<Locale, Deep>),
}

impl View {
    fn locale(&self) -> Locale {
        match self {
            View::Root(c) => c.get_locale_untracked(),
            View::Sub(c) => c.get_locale_untracked(),
            View::Deep(c) => c.get_locale_untracked(),
        }
    }
    fn set(&self, l: Locale, tracked: bool) {
        match (self, tracked) {
            (View::Root(c), true) => c.set_locale(l),
            (View::Sub(c), true) => c.set_locale(l),
            (View::Deep(c), true) => c.set_locale(l),
            (View::Root(c), false) => c.set_locale_untracked(l),
            (View::Sub(c), false) => c.set_locale_untracked(l),
            (View::Deep(c), false) => c.set_locale_untracked(l),
        }
    }
}

fn loc(s: &str) -> Locale {
    Locale::from_str(s).unwrap_or_else(|_| panic!("driver: unknown locale {}", s))
}

fn header_text(h: &Value, hsp: &Value) -> Option<String> {
    let toks: Vec<&str> = h.as_array().unwrap().iter().map(|t| t.as_str().unwrap()).collect();
    if toks.is_empty() {
        return None;
    }
    Some(match hsp.as_str().unwrap_or("tight") {
        "spaced" => toks.join(", "),
        "q" => toks.iter().enumerate().map(|(i, t)| format!("{};q=0.{}", t, 9 - i.min(8))).collect::<Vec<_>>().join(", "),
        "star" => format!("{}, *;q=0.1", toks.join(", ")),
        _ => toks.join(","),
    })
}

fn cookie_header(cookie: &Value, name: &str) -> Option<String> {
    let sp = cookie["sp"].as_str().unwrap_or("other");
    match cookie["state"].as_str().unwrap() {
        "valid" => {
            let l = cookie["l"].as_str().unwrap();
            let decoy = if l == "de" { "fr" } else { "de" };
            Some(match sp {
                "only" => format!("{}={}", name, l),
                "first" => format!("{}={}; other=1", name, l),
                "decoy" => format!("x_{}={}; {}={}; {}2={}", name, decoy, name, l, name, decoy),
                _ => format!("other=1; {}={}", name, l),
            })
        }
        "absent" => match sp {
            "none" => None,
            "prefix" => Some(format!("x_{}=de; other=1", name)),
            "suffix" => Some(format!("other=1; {}2=de", name)),
            _ => Some("other=1".to_string()),
        },
        _ => Some(match sp {
            "empty" => format!("{}=; other=1", name),
            "case" => format!("other=1; {}=FR", name),
            "noeq" => format!("{}; other=1", name),
            _ => format!("{}=not-a-locale; other=1", name),
        }),
    }
}

struct World {
    owner: Owner,
    views: Vec<View>,
    ctx_of_view: Vec<usize>,
    ctxs: Vec<(I18nContext<Locale>, Owner)>,
    accs: Vec<Box<dyn Fn() -> String>>,
    set_cookies: Arc<Mutex<Vec<String>>>,
    /// views built by <I18nSubContextProvider>: they own the reactive owner of their sub-context
    keep: Vec<AnyView>,
    /// owners in which sub-contexts were created (an owner that is dropped disposes what was created in it)
    keep_owners: Vec<Owner>,
}

fn render<V: IntoView>(v: V) -> String {
    let html = v.into_view().to_html();
    // strip comments / markers the renderer adds around text nodes
    let mut out = String::new();
    let mut rest = html.as_str();
    while let Some(i) = rest.find("<!") {
        out.push_str(&rest[..i]);
        match rest[i..].find('>') {
            Some(j) => rest = &rest[i + j + 1..],
            None => {
                rest = "";
            }
        }
    }
    out.push_str(rest);
    // text nodes are HTML-escaped by the renderer
    out.replace("&lt;", "<").replace("&gt;", ">").replace("&amp;", "&")
}

impl World {
    fn obs(&self) -> Value {
        let views: Vec<Value> = self.views.iter().map(|v| json!(v.locale().as_str())).collect();
        let accs: Vec<Value> = self.accs.iter().map(|a| json!(a())).collect();
        json!({"views": views, "accs": accs})
    }

    fn create_main(op: &Value) -> World {
        let owner = Owner::new();
        owner.set();
        let set_cookies: Arc<Mutex<Vec<String>>> = Arc::new(Mutex::new(vec![]));
        let name = if op["custom"].as_bool().unwrap() { "my_locale" } else { "i18n_pref_locale" };
        let jar = cookie_header(&op["cookie"], name);
        let sc = set_cookies.clone();
        let cookie_opts = leptos_i18n::context::CookieOptions::<Locale>::default()
            .ssr_cookies_header_getter(move || jar.clone())
            .ssr_set_cookie(move |c: &cookie::Cookie| sc.lock().unwrap().push(c.to_string()))
            .on_error(Arc::new(|_| {}));
        let header = header_text(&op["header_tags"], &op["hsp"]);
        let locales_opts = UseLocalesOptions::default().ssr_lang_header_getter(move || header.clone());
        let mut opts = I18nContextOptions::<Locale>::default()
            .enable_cookie(op["enable"].as_bool().unwrap())
            .cookie_options(cookie_opts)
            .ssr_lang_header_getter(locales_opts);
        if op["custom"].as_bool().unwrap() {
            opts = opts.cookie_name("my_locale");
        }
        let child = owner.child();
        let ctx = child.with(|| {
            let ctx = init_i18n_context_with_options::<Locale>(opts);
            provide_context(ctx);      // the owner recorded for a context is one in which `use_i18n()` finds it
            ctx
        });
        World { owner, views: vec![View::Root(ctx)], ctx_of_view: vec![0], ctxs: vec![(ctx, child)], accs: vec![], set_cookies, keep: vec![], keep_owners: vec![] }
    }

    fn resolve(op: &Value) -> String {
        let owner = Owner::new();
        owner.set();
        let name = if op["custom"].as_bool().unwrap() { "my_locale" } else { "i18n_pref_locale" };
        let jar = cookie_header(&op["cookie"], name);
        let cookie_opts = leptos_i18n::context::CookieOptions::<Locale>::default().ssr_cookies_header_getter(move || jar.clone()).ssr_set_cookie(|_: &cookie::Cookie| {}).on_error(Arc::new(|_| {}));
        let header = header_text(&op["header_tags"], &op["hsp"]);
        let locales_opts = UseLocalesOptions::default().ssr_lang_header_getter(move || header.clone());
        let mut opts = I18nContextOptions::<Locale>::default()
            .enable_cookie(op["enable"].as_bool().unwrap())
            .cookie_options(cookie_opts)
            .ssr_lang_header_getter(locales_opts);
        if op["custom"].as_bool().unwrap() {
            opts = opts.cookie_name("my_locale");
        }
        let l = leptos_i18n::locale::resolve_locale_with_options::<Locale>(opts);
        l.as_str().to_string()
    }

    fn create_sub(&mut self, op: &Value) {
        let parent = op["parent"].as_u64().unwrap() as usize;
        let base = if parent == 0 { self.owner.child() } else { self.ctxs[parent - 1].1.child() };
        let cookie_on = op["cookieOn"].as_bool().unwrap();
        let jar = cookie_header(&op["cookie"], "sub_locale");
        let sc = self.set_cookies.clone();
        let cookie_opts = leptos_i18n::context::CookieOptions::<Locale>::default()
            .ssr_cookies_header_getter(move || jar.clone())
            .ssr_set_cookie(move |c: &cookie::Cookie| sc.lock().unwrap().push(c.to_string()))
            .on_error(Arc::new(|_| {}));
        let header = header_text(&op["header_tags"], &op["hsp"]);
        let locales_opts = UseLocalesOptions::default().ssr_lang_header_getter(move || header.clone());
        let initial = match op["initial"].as_str().unwrap() {
            "none" => None,
            l => {
                let l = loc(l);
                Some(Signal::derive(move || l))
            }
        };
        let parent_ctx = if parent == 0 { None } else { Some(self.ctxs[parent - 1].0) };
        let cookie_name: Option<std::borrow::Cow<'static, str>> = if cookie_on { Some("sub_locale".into()) } else { None };
        if op["via"].as_str() == Some("provider") {
            // the documented way: <I18nSubContextProvider> rendered where the parent is the current context.  The children record
            // the context they see and their owner.
            let (pctx, powner) = (self.ctxs[parent - 1].0, self.ctxs[parent - 1].1.clone());
            let cell: Arc<Mutex<Option<(I18nContext<Locale>, Owner)>>> = Arc::new(Mutex::new(None));
            let c2 = cell.clone();
            let view = powner.with(|| {
                provide_context(pctx);
                leptos_i18n::context::i18n_sub_context_provider_inner::<Locale, _>(
                    leptos::children::ToChildren::to_children(move || {
                        *c2.lock().unwrap() = Some((use_i18n(), Owner::current().expect("owner")));
                        ""
                    }),
                    initial,
                    cookie_name,
                    Some(cookie_opts),
                    Some(locales_opts),
                )
                .into_any()
            });
            self.keep.push(view);
            let (ctx, own) = cell.lock().unwrap().take().expect("the provider ran its children");
            self.ctxs.push((ctx, own));
            self.views.push(View::Root(ctx));
            self.ctx_of_view.push(self.ctxs.len() - 1);
            return;
        }
        let ctx = base.with(|| {
            if let Some(p) = parent_ctx {
                provide_context(p);
            }
            init_i18n_subcontext_with_options::<Locale>(initial, cookie_name, Some(cookie_opts), Some(locales_opts))
        });
        // (the sub-context is provided in an owner of its own below the one it was created in)
        let own = base.child();
        own.with(|| provide_context(ctx));
        self.keep_owners.push(base);
        self.ctxs.push((ctx, own));
        self.views.push(View::Root(ctx));
        self.ctx_of_view.push(self.ctxs.len() - 1);
    }

    /// `use_i18n()` where context c is the current one: a new handle on c
    fn lookup(&mut self, c: usize) {
        let own = self.ctxs[c].1.clone();
        let found = own.with(use_i18n);
        self.views.push(View::Root(found));
        self.ctx_of_view.push(c);
    }

    fn scope(&mut self, v: usize) {
        let nv = match self.views[v] {
            View::Root(c) => View::Sub(scope_i18n!(c, sub)),
            View::Sub(c) => View::Deep(scope_i18n!(c, deep)),
            View::Deep(_) => panic!("driver: cannot scope deeper"),
        };
        self.views.push(nv);
        self.ctx_of_view.push(self.ctx_of_view[v]);
    }

    fn make_accessor(&mut self, v: usize, key: &str, flavour: &str) {
        let a: Box<dyn Fn() -> String> = match (self.views[v], key, flavour) {
            (View::Root(c), "inner", "string") => Box::new(move || t_string!(c, sub.inner).to_string()),
            (View::Root(c), "leaf", "string") => Box::new(move || t_string!(c, sub.deep.leaf).to_string()),
            (View::Sub(c), "inner", "string") => Box::new(move || t_string!(c, inner).to_string()),
            (View::Sub(c), "leaf", "string") => Box::new(move || t_string!(c, deep.leaf).to_string()),
            (View::Deep(c), "leaf", "string") => Box::new(move || t_string!(c, leaf).to_string()),
            // SUBSCRIBERS: a Memo and an (isomorphic) Effect around t_string!.  They show what they computed when they were last
            // NOTIFIED - a tracked set_locale notifies them, an untracked one does not (that is what "untracked" means)
            (View::Root(c), "leaf", "memo") => {
                let m = Memo::new(move |_| t_string!(c, sub.deep.leaf).to_string());
                let _ = m.get_untracked();
                Box::new(move || m.get_untracked())
            }
            (View::Sub(c), "leaf", "memo") => {
                let m = Memo::new(move |_| t_string!(c, deep.leaf).to_string());
                let _ = m.get_untracked();
                Box::new(move || m.get_untracked())
            }
            (View::Deep(c), "leaf", "memo") => {
                let m = Memo::new(move |_| t_string!(c, leaf).to_string());
                let _ = m.get_untracked();
                Box::new(move || m.get_untracked())
            }
            (View::Root(c), "leaf", "effect") => effect_accessor!(t_string!(c, sub.deep.leaf)),
            (View::Sub(c), "leaf", "effect") => effect_accessor!(t_string!(c, deep.leaf)),
            (View::Deep(c), "leaf", "effect") => effect_accessor!(t_string!(c, leaf)),
            (View::Root(c), "inner", "view") => {
                let f = t!(c, sub.inner);
                Box::new(move || render(f()))
            }
            (View::Root(c), "leaf", "view") => {
                let f = t!(c, sub.deep.leaf);
                Box::new(move || render(f()))
            }
            (View::Sub(c), "inner", "view") => {
                let f = t!(c, inner);
                Box::new(move || render(f()))
            }
            (View::Sub(c), "leaf", "view") => {
                let f = t!(c, deep.leaf);
                Box::new(move || render(f()))
            }
            (View::Deep(c), "leaf", "view") => {
                let f = t!(c, leaf);
                Box::new(move || render(f()))
            }
            (View::Root(c), "inner", "display") => Box::new(move || t_display!(c, sub.inner).to_string()),
            (View::Sub(c), "inner", "display") => Box::new(move || t_display!(c, inner).to_string()),
            // formatter accessors take no key: their text is the long date of a fixed day, which tells the locale apart
            (View::Root(c), "fmt", "format") => fmt_view_accessor!(c),
            (View::Sub(c), "fmt", "format") => fmt_view_accessor!(c),
            (View::Deep(c), "fmt", "format") => fmt_view_accessor!(c),
            (View::Root(c), "fmt", "format_string") => Box::new(move || fmt_tag(&leptos_i18n::formatting::t_format_string!(c, &fmt::date(), formatter: date(date_length: long)).to_string())),
            (View::Sub(c), "fmt", "format_string") => Box::new(move || fmt_tag(&leptos_i18n::formatting::t_format_string!(c, &fmt::date(), formatter: date(date_length: long)).to_string())),
            (View::Deep(c), "fmt", "format_string") => Box::new(move || fmt_tag(&leptos_i18n::formatting::t_format_string!(c, &fmt::date(), formatter: date(date_length: long)).to_string())),
            _ => panic!("driver: accessor {} not available on this view", key),
        };
        self.accs.push(a);
    }
}

macro_rules! effect_accessor {
    ($e:expr) => {{
        let cell: Arc<Mutex<String>> = Arc::new(Mutex::new("not-run".to_string()));
        let c2 = cell.clone();
        Effect::new_isomorphic(move |_| {
            *c2.lock().unwrap() = $e.to_string();
        });
        flush();
        Box::new(move || cell.lock().unwrap().clone())
    }};
}
use effect_accessor;

macro_rules! fmt_view_accessor {
    ($c:expr) => {{
        let f = leptos_i18n::formatting::t_format!($c, fmt::date, formatter: date(date_length: long));
        Box::new(move || fmt_tag(&render(f())))
    }};
}
use fmt_view_accessor;

/// "fmt-<locale>" for the locale whose direct ICU4X long date equals `out` (the scenario's locales first)
fn fmt_tag(out: &str) -> String {
    use leptos_i18n::Locale as _;
    let args = vec!["long".to_string()];
    let mut names: Vec<&'static str> = vec!["en", "fr", "de"];
    for l in Locale::get_all() {
        if !names.contains(&l.as_str()) {
            names.push(l.as_str());
        }
    }
    for n in names {
        if fmt::icu_direct("date", &args, n) == out {
            return format!("fmt-{}", n);
        }
    }
    format!("fmt-?{}", out)
}

// A single-threaded executor: everything the reactive system spawns (effects, also the "isomorphic" ones) runs on this thread,
// and only when the executor is polled.  The harness replays SEQUENTIAL behaviours; with a thread pool an effect of the library can
// read a signal at the very moment the next step writes it, and reactive_graph (which takes its locks without blocking) then
// reports a signal as "disposed" - a race of the harness' own making.
mod st_exec {
    use futures::executor::{LocalPool, LocalSpawner};
    use futures::task::LocalSpawnExt;
    use std::cell::RefCell;
    thread_local! {
        static POOL: RefCell<LocalPool> = RefCell::new(LocalPool::new());
        static SPAWNER: LocalSpawner = POOL.with(|p| p.borrow().spawner());
    }
    pub struct SingleThread;
    impl any_spawner::CustomExecutor for SingleThread {
        fn spawn(&self, fut: any_spawner::PinnedFuture<()>) {
            SPAWNER.with(|s| s.spawn_local(fut).expect("spawn"));
        }
        fn spawn_local(&self, fut: any_spawner::PinnedLocalFuture<()>) {
            SPAWNER.with(|s| s.spawn_local(fut).expect("spawn_local"));
        }
        fn poll_local(&self) {
            POOL.with(|p| {
                if let Ok(mut p) = p.try_borrow_mut() {
                    p.run_until_stalled();
                }
            });
        }
    }
    pub fn init() {
        let _ = any_spawner::Executor::init_custom_executor(SingleThread);
    }
}

fn flush() {
    // single-threaded executor (module st_exec): everything pending runs here, now
    any_spawner::Executor::poll_local();
}

fn do_ctx(c: &Value, w: &mut Out) {
    let id = c["case"].clone();
    let mut world: Option<World> = None;
    for (step, op) in c["hist"].as_array().unwrap().iter().enumerate() {
        let kind = op["op"].as_str().unwrap().to_string();
        let r = run_caught(std::panic::AssertUnwindSafe(|| {
            match kind.as_str() {
                "create_main" => {
                    world = Some(World::create_main(op));
                }
                "create_sub" => world.as_mut().unwrap().create_sub(op),
                "set" => {
                    let wd = world.as_mut().unwrap();
                    wd.views[op["view"].as_u64().unwrap() as usize - 1].set(loc(op["locale"].as_str().unwrap()), op["tracked"].as_bool().unwrap());
                }
                "scope" => world.as_mut().unwrap().scope(op["view"].as_u64().unwrap() as usize - 1),
                "lookup" => world.as_mut().unwrap().lookup(op["ctx"].as_u64().unwrap() as usize - 1),
                "make_accessor" => world.as_mut().unwrap().make_accessor(
                    op["view"].as_u64().unwrap() as usize - 1,
                    op["key"].as_str().unwrap(),
                    op["flavour"].as_str().unwrap(),
                ),
                other => panic!("driver: unknown op {}", other),
            }
            flush();
            let wd = world.as_ref().unwrap();
            let mut obs = wd.obs();
            if kind == "create_main" {
                obs["resolve"] = json!(World::resolve(op));
            }
            obs["setCookie"] = json!(wd.set_cookies.lock().unwrap().clone());
            obs
        }));
        match r {
            Ok(obs) => w.emit(&json!({"ev": "Ctx", "case": id, "step": step + 1, "op": op, "outcome": "Ok", "obs": obs})),
            Err(msg) => {
                w.emit(&json!({"ev": "Ctx", "case": id, "step": step + 1, "op": op, "outcome": "Panic", "panic": msg}));
                break;
            }
        }
    }
}

// scoped locale of the generated enum (only obtainable through the macro)
pub fn scoped_forms(l: Locale) -> (String, String, String) {
    let s = scope_locale!(l, sub);
    let as_str = LocaleTrait::as_str(s).to_string();
    let display = s.to_string();
    let ser = serde_json::to_string(&s).unwrap_or_else(|e| format!("ERR {}", e));
    (as_str, display, ser)
}

fn parse_like<T: FromStr>(_: &T, s: &str) -> Option<T> {
    T::from_str(s).ok()
}

pub fn scoped_parse(p: &str) -> String {
    let witness = scope_locale!(Locale::default(), sub);
    match parse_like(&witness, p) {
        Some(s) => LocaleTrait::as_str(s).to_string(),
        None => "err".to_string(),
    }
}

// ------------------------------------------------------------------------------------------
// plumbing (same conventions as the other drivers)
// ------------------------------------------------------------------------------------------
pub struct Out {
    w: std::io::BufWriter<std::fs::File>,
}
impl Out {
    fn create(path: &str, append: bool) -> Self {
        let f = std::fs::OpenOptions::new().create(true).write(true).append(append).truncate(!append).open(path).expect("open out");
        Out { w: std::io::BufWriter::new(f) }
    }
    pub fn emit(&mut self, v: &Value) {
        use std::io::Write;
        serde_json::to_writer(&mut self.w, v).expect("write");
        self.w.write_all(b"\n").expect("write");
        self.w.flush().expect("flush");
    }
}

pub fn run_caught<T>(f: impl FnOnce() -> T) -> Result<T, String> {
    match std::panic::catch_unwind(std::panic::AssertUnwindSafe(f)) {
        Ok(v) => Ok(v),
        Err(e) => Err(if let Some(s) = e.downcast_ref::<&str>() {
            s.to_string()
        } else if let Some(s) = e.downcast_ref::<String>() {
            s.clone()
        } else {
            "<non-string panic>".to_string()
        }),
    }
}

fn main() {
    let args: Vec<String> = std::env::args().collect();
    let mut cases = String::new();
    let mut out = String::new();
    let mut skip = 0usize;
    let mut i = 1;
    while i < args.len() {
        match args[i].as_str() {
            "--cases" => { cases = args[i + 1].clone(); i += 2; }
            "--out" => { out = args[i + 1].clone(); i += 2; }
            "--skip" => { skip = args[i + 1].parse().unwrap(); i += 2; }
            _ => panic!("unknown arg {}", args[i]),
        }
    }
    std::panic::set_hook(Box::new(|_| {}));
    st_exec::init();
    let mut w = Out::create(&out, skip > 0);
    let txt = std::fs::read_to_string(&cases).expect("cases");
    for (n, line) in txt.lines().enumerate() {
        if n < skip || line.trim().is_empty() {
            continue;
        }
        let c: Value = serde_json::from_str(line).expect("case json");
        w.emit(&json!({"ev": "Begin", "case": c["case"], "n": n}));
        match c["mode"].as_str().unwrap() {
            "universe" => {
                let uni: Vec<Entry> = c["tags"].as_array().unwrap().iter().map(|t| {
                    let tag: &'static str = Box::leak(t.as_str().unwrap().to_string().into_boxed_str());
                    Entry { tag, icu: tag.parse().expect("universe tag") }
                }).collect();
                let _ = UNIVERSE.set(uni);
            }
            "negotiate" => do_negotiate(&c, &mut w),
            "ctx" => do_ctx(&c, &mut w),
            "ident" => sets::do_ident(&c, &mut w),
            "fmt" => fmt::do_fmt(&c, &mut w),
            "fmtval" => fmt::do_fmtval(&c, &mut w),
            other => panic!("unknown mode {}", other),
        }
    }
    w.emit(&json!({"ev": "End"}));
}
