CONSTANTS
  LocaleSets <- MCLocaleSets
  Bases <- MCBases
  Tables <- MCTables
  Rests <- MCRests
  MaxSwitches = 3
  Words = {"english", "frog", "about", "a-propos", "users", "utilisateurs", "x", "42", "docs", "fra", "en-US"}
SPECIFICATION MCSpec
INVARIANTS ReadsBack MatchedAsCurrent EmitCases
PROPERTIES RoundTrip KeepsShape RouteStable
VIEW NoTrail
CHECK_DEADLOCK FALSE
