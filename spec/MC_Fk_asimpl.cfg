\* spec mutant: arguments are not substituted into already-resolved references of the target; TLC must find a counterexample
CONSTANTS
  Graphs <- MCGraphs
  PopulateEntersResolved = FALSE
  FullArgs = FALSE
SPECIFICATION MCSpec
INVARIANTS FinalIsSubst
CHECK_DEADLOCK FALSE
