------------------------------ MODULE IcuNeeds ------------------------------
(* C20  The build helper requests exactly the ICU data the translations use.  *)
(*                                                                            *)
(* A project is described by its *uses*: at slot (unit, where, locale) the    *)
(* value is a plural or uses a formatter.  unit = namespace index, where =    *)
(* position of the key in the key tree (depth 0, 1, 2).                       *)
EXTENDS IcuOps

\* ---- the walk of the implementation: one action per level of the key tree of a unit ------------
CONSTANTS Projects     \* set of [units |-> number of namespaces (0 = none), uses |-> set of uses]

VARIABLES proj, frames, used
vars == <<proj, frames, used>>

UnitsOf(p) == IF p.units = 0 THEN {1} ELSE 1..p.units
Init == proj \in Projects /\ frames = { <<u, "">> : u \in UnitsOf(proj) } /\ used = {}

\* keys of a level: "" -> t (value), g (group);  "g" -> s (value), h (group);  "g.h" -> u (value)
ValuesAt(path) == CASE path = "" -> {"t"} [] path = "g" -> {"g.s"} [] OTHER -> {"g.h.u"}
GroupsAt(path) == CASE path = "" -> {"g"} [] path = "g" -> {"g.h"} [] OTHER -> {}

\* the signature of a key is the union over locales, so a use in any locale counts
Frame(f) ==
    /\ f \in frames
    /\ used' = used \cup UNION { OptionsOf(u.feat) : u \in { x \in proj.uses : x.unit = f[1] /\ x.where \in ValuesAt(f[2]) } }
    /\ frames' = (frames \ {f}) \cup { <<f[1], g>> : g \in GroupsAt(f[2]) }
    /\ UNCHANGED proj
Next == \E f \in frames : Frame(f)
Done == frames = {}

ExactlyNeeds == Done => used = Needs(proj.uses)
NeverTooMuch == used \subseteq Needs(proj.uses)
Termination == <>Done
=============================================================================
