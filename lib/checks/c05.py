"""C05  Plural forms are selected by the locale's CLDR plural rules (parser level, L1)."""
import json
import os

import vp
from checks import loadfam

LOCS = ["en", "fr", "ru", "ar", "pl", "ja", "cy", "ga", "lv", "he"]
COUNTS = ["0", "1", "2", "3", "5", "11", "21", "100", "1000000", "1.5"]


def plural_oracle(run, locales, counts):
    """CLDR categories from direct icu_plurals calls (not through leptos_i18n)."""
    binary = vp.cargo_build("drv_parser", ("json",), variant="json")
    wd = os.path.join(run.workdir, "oracle")
    os.makedirs(wd, exist_ok=True)
    inp = os.path.join(wd, "in.ndjson")
    out = os.path.join(wd, "out.ndjson")
    vp.write_ndjson(inp, [{"case": 1, "mode": "plural_oracle", "locales": locales, "counts": counts}])
    vp.run_driver(binary, inp, out, 1)
    ev = [e for e in vp.read_ndjson(out) if e.get("ev") == "PluralOracle"]
    if not ev:
        raise vp.ToolError("no plural oracle output")
    path = os.path.join(wd, "oracle.json")
    json.dump(ev[0]["oracle"], open(path, "w"))
    return path


def _key(c, r):
    a = c["abs"]
    ms = sorted("%s/%s" % (m["ty"][0], m["form"]) for m in a["members"])
    return "members=%s;baseIsKey=%s;%s" % (",".join(ms), a["baseIsKey"], sorted(r["tags"])[0].split(":")[0])


def check(run):
    cases, res = loadfam.gen_cases(run, "MC_Plurals", "MC_Plurals_%s.cfg" % run.tier)
    if len(cases) < 50:
        raise vp.ToolError("MC_Plurals produced too few cases")
    mut = vp.tlc("MC_Plurals", "MC_Plurals_asimpl.cfg", run.workdir)
    run.notes["spec_mutant_SharedSlot_TRUE_detected"] = (mut["violated"] == "Conforms")
    if mut["violated"] != "Conforms":
        raise vp.ToolError("spec mutant MC_Plurals_asimpl was not detected by TLC")
    oracle = plural_oracle(run, LOCS, COUNTS)
    run.samples = [cases[len(cases) // 2]["abs"], cases[-1]["abs"]]
    loadfam.replay_load(run, cases, "Trace_Plurals", "Trace_Plurals.cfg", build_features=("json", "quote"),
                        variant="json-quote", key_of=_key, trace_env={"ORACLE": oracle})
    run.exhaustive = True
    run.assumptions = ["CLDR plural categories are an oracle outside the model: direct icu_plurals calls made by the driver, given to the trace specification as data",
                       "10 locales spanning the CLDR patterns (en fr ru ar pl ja cy ga lv he); literal counts 0 1 2 3 5 11 21 100 1000000 1.5",
                       "parse-time selection through `$t(k, {\"count\": n})`; run-time selection by generated code is the L2 check"]
    return run.finish("every subset of plural forms, cardinal / ordinal / mixed, with and without a colliding normal key; each a 10-locale project; "
                      "non-trivial: member sets the spec merges into a plural or rejects",
                      {"distinct_nontrivial": sum(1 for c in cases if len(c["abs"]["members"]) >= 2)})


def replay(run, path):
    rp = json.load(open(path))["replay"]
    oracle = plural_oracle(run, LOCS, COUNTS)
    loadfam.replay_load(run, [rp["case"]], "Trace_Plurals", "Trace_Plurals.cfg", build_features=("json", "quote"),
                        variant="json-quote", keep_dirs=True, trace_env={"ORACLE": oracle})
    return run.finish("replay of one recorded case")
