------------------------------ MODULE MC_Value ------------------------------
EXTENDS ValueGen, Json

MCTexts == { <<"a">>, <<"SP", "E1", "SP">> }
MCVars  == { <<"x">>, <<"y">> }
MCComps == { <<"b">>, <<"i">> }

WsAtoms == { <<>>, <<"SP">>, <<"SP", "SP">>, <<"NBSP">>, <<"TAB">> }
Positions == {"vl", "vr", "ol", "orr", "c1", "c2", "cr"}
\* one position at a time set to each kind of whitespace, plus the same whitespace everywhere
OneAt(p, w) == [q \in Positions |-> IF q = p THEN w ELSE <<>>]
Everywhere(w) == [q \in Positions |-> w]
WsSingles == { OneAt(p, w) : p \in Positions, w \in WsAtoms }
WsAll     == { Everywhere(w) : w \in WsAtoms }
MCWs      == WsSingles \cup WsAll

RoundTripMC == RoundTrip(MCWs)

\* one CASE per generated value: the AST and its spelling under every whitespace choice
EmitCases == done => PrintT(<<"CASE", ToJson([family |-> "value", abs |-> [ast |-> Value],
                                 spellings |-> SortedSeq({ Unparse(Value, ws) : ws \in MCWs })])>>)

MCSpec == Init /\ [][Next]_vars /\ WF_vars(Next)
=============================================================================
