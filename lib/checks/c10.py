"""C10  Results depend only on translation content, not on order, run or file format."""
import json
import os
import random

import vp
from checks import loadfam
from checks import c01
from checks.c05 import plural_oracle


def families(run, rng, quick):
    """(name, cases, trace module, trace cfg, trace env) — every family re-uses the trace specification that
    validates it against the spec, so each permutation / format / run is compared with the spec's outcome."""
    out = []
    cap = 120 if quick else 1500

    def take(cs):
        return cs if len(cs) <= cap else rng.sample(cs, cap)

    cs, _ = loadfam.gen_cases(run, "MC_Fallback", "MC_Fallback_quick.cfg")
    out.append(("fallback", take(cs), "Trace_Fallback", "Trace_Fallback.cfg", {}))
    cs, _ = loadfam.gen_cases(run, "MC_Keys", "MC_Keys_quick.cfg")
    out.append(("keys", take(cs), "Trace_Keys", "Trace_Keys.cfg", {"SUPPRESS": "0"}))
    oracle = plural_oracle(run, ["en", "fr", "ru", "ar", "pl", "ja", "cy", "ga", "lv", "he", "de"], ["0", "1", "2", "3", "5", "11", "21", "100", "1000000", "1.5", "-1", "-2"])
    cs, _ = loadfam.gen_cases(run, "MC_FkFamilies", "MC_FkFamilies.cfg", workers=1)
    if quick:
        cs = [c for c in cs if c["family"] != "fk-arm-shapes"]       # one very large project: thorough tier only
    out.append(("fk-families", cs, "Trace_Fk", "Trace_Fk.cfg", {"ORACLE": oracle}))
    cs, _ = loadfam.gen_cases(run, "MC_Fk", "MC_Fk_quick.cfg")
    out.append(("fk-graphs", take(cs), "Trace_Fk", "Trace_Fk.cfg", {"ORACLE": oracle}))
    cs, _ = loadfam.gen_cases(run, "MC_Plurals", "MC_Plurals_quick.cfg")
    # (the project with several plural keys first: the order of its many diagnostics must not vary from run to run)
    multi = [c for c in cs if c["abs"].get("multi")]
    out.append(("plurals", multi + [c for c in take(cs) if not c["abs"].get("multi")][: (40 if quick else 400)], "Trace_Plurals", "Trace_Plurals.cfg", {"ORACLE": oracle}))
    cs, _ = loadfam.gen_cases(run, "MC_Ranges", "MC_Ranges_quick.cfg")
    # (the sample always holds declarations of the listed known finding, so that it is re-examined on every run)
    big = [c for c in cs if _uses_big_u64_number(c)][:2]
    out.append(("ranges", big + [c for c in take(cs) if not _uses_big_u64_number(c) or c not in big], "Trace_Ranges", "Trace_Ranges.cfg", {}))
    # numbers as values (module Numbers): every spelling of a number, in every format, shows the number's plain decimal expansion;
    # the edge cases (what no reader can hold) are part of the sample on every run, they carry the listed known findings
    cs, _ = loadfam.gen_cases(run, "MC_Numbers", "MC_Numbers.cfg", workers=1)
    out.append(("numbers", cs, "Trace_Fk", "Trace_Fk.cfg", {"ORACLE": oracle}))
    vs, _ = loadfam.gen_cases(run, "MC_Value", "MC_Value_quick.cfg")
    out.append(("values", c01.project_cases(run, take(vs), per_project=60), "Trace_Value", "Trace_Value.cfg", {}))
    return out


def _uses_big_u64_number(c):
    """a u64 range whose count is written as a JSON *number* above i64::MAX (anchors 5 and 6)"""
    a = c.get("abs") or {}
    if a.get("ty") != "u64" or not (a.get("sp") or {}).get("num"):
        return False
    return any(alt.get("f") == "exact" and alt.get("a", 0) >= 5 for b in a.get("branches", []) for alt in b.get("alts", []))


def _key(name, fmt, seed, c, r):
    tag = sorted(r["tags"])[0]
    if name == "ranges" and fmt == "json5" and tag == "must-accept-got-Err" and _uses_big_u64_number(c):
        return "ranges;json5;u64-count-written-as-number-above-i64-max"
    if name == "numbers" and (c.get("abs") or {}).get("cls"):
        # an edge case of module Numbers: identified by the format's reader, the class and the token itself
        return "numbers;%s;%s;%s;%s" % ("yaml" if fmt == "yaml2" else fmt, c["abs"]["cls"], vp.text_of(c["abs"]["tok"]), tag.split(":")[0])
    return "%s;%s;perm=%s;%s;%s" % (name, fmt, "none" if seed is None else "seeded", vp.fingerprint(c.get("abs")), tag)


def check(run):
    quick = run.tier == "quick"
    rng = random.Random(run.seed)
    res = vp.tlc("MC_ReadOrder", "MC_ReadOrder.cfg", run.workdir)
    vp.tlc_ok(res, "MC_ReadOrder")
    run.add_mc("MC_ReadOrder", res)
    fams = families(run, rng, quick)
    nperm = 1 if quick else 5
    plan = [("json", None)] + [("json", rng.randrange(1 << 30)) for _ in range(nperm)] \
        + [("yaml", rng.randrange(1 << 30)) for _ in range(nperm)] + [("json5", rng.randrange(1 << 30)) for _ in range(nperm)] \
        + [("yaml2", rng.randrange(1 << 30)) for _ in range(nperm)]      # yaml2: YAML as written by hand (block sequences, plain / single-quoted scalars)
    # every driver binary is built before the families fan out (cargo must not run concurrently on one target directory)
    for fmt in ("json", "yaml", "json5"):
        vp.cargo_build("drv_parser", (fmt, "quote"), variant=fmt + "-quote")
    vp.cargo_build("drv_codegen")
    import concurrent.futures
    main_run = run
    subs = [main_run.sub() for _ in fams]
    with concurrent.futures.ThreadPoolExecutor(max_workers=4) as pool:
        futs = [pool.submit(_family, sub, fam, plan) for sub, fam in zip(subs, fams)]
        totals = [f.result() for f in futs]
    for sub in subs:
        main_run.merge(sub)
    total = sum(totals)
    run.samples = [{"family": f[0], "cases": len(f[1])} for f in fams]
    # how much of module Numbers was replayed (non-vacuity): literal keys, reference arguments, edge tokens, dialect spellings
    nums = [c for f in fams if f[0] == "numbers" for c in f[1]]
    ents = lambda c: (c["abs"]["P"]["vals"]["en"]).values()
    run.notes["numbers"] = {"projects": len(nums),
                            "literal_keys": sum(1 for c in nums if c["family"] == "numbers" for e in ents(c) if e.get("k") == "lit"),
                            "reference_arguments": sum(1 for c in nums if c["family"] == "numbers" and "tgt" in c["abs"]["P"]["vals"]["en"] for e in ents(c)) - sum(1 for c in nums if c["family"] == "numbers" and "tgt" in c["abs"]["P"]["vals"]["en"]),
                            "edge_tokens": sum(1 for c in nums if c["family"] == "numbers-edge"),
                            "dialect_spellings": {c["abs"]["only"]: sum(1 for e in ents(c) if e.get("k") == "lit") for c in nums if c["family"] == "numbers-dialect"}}
    if not run.notes["numbers"]["literal_keys"] or not run.notes["numbers"]["edge_tokens"]:
        raise vp.ToolError("module Numbers produced no literals")
    run.notes["format_perm_plan"] = [[f, "identity" if s is None else "seeded permutation"] for f, s in plan]
    run.assumptions = ["every family is validated against the specification in every (format, key-order permutation) variant, so all variants denote the spec's outcome",
                       "repeated runs: one variant per family is executed twice in fresh processes and the two traces must be identical event by event",
                       "generated code: the real code generator (leptos_i18n_macro modules included by path) is run in-process twice and on a key-order permutation for 4 families; the token text must be identical"]
    return run.finish("samples of the C01/C03/C04/C05/C06/C07 case families x {json, yaml, json5} x key-order permutations x 2 runs; "
                      "non-trivial: every replayed project variant", {"distinct_nontrivial": total})


def _family(run, fam, plan):
    """all variants of one family (runs in a worker thread on its own accumulator)"""
    name, cases, tmod, tcfg, tenv = fam
    total = 0
    if True:
        for n, (fmt, seed) in enumerate(plan):
            tag = "_%s_%s_%d" % (name, fmt, n)
            feat = "yaml" if fmt == "yaml2" else fmt
            all_cases = fam[1]
            # (module Numbers: a project written in one format's dialect - `+5`, `.5`, `0x1F`, `True` - exists in that format only)
            cases = [c for c in all_cases if (c.get("abs") or {}).get("only") in (None, feat)]
            loadfam.replay_load(run, cases, tmod, tcfg, build_features=(feat, "quote"), variant=feat + "-quote", fmt=fmt,
                                perm_seed=seed, tag=tag, trace_env=tenv, keep_dirs=(n <= 1),
                                key_of=lambda c, r, nm=name, f=fmt, s=seed: _key(nm, f, s, c, r))
            total += len(cases)
            if n == 1:
                # the same directories, a second fresh process: the two traces must be identical
                wd = os.path.join(run.workdir, "load" + tag)
                binary = vp.cargo_build("drv_parser", (feat, "quote"), variant=feat + "-quote")
                t2 = os.path.join(wd, "trace2.ndjson")
                vp.run_driver(binary, os.path.join(wd, "drv_in.ndjson"), t2, len(cases))
                summary, rejects, _ = vp.trace_validate("Trace_Same", "Trace_Same.cfg", wd, os.path.join(wd, "trace.ndjson"),
                                                        os.path.join(wd, "cases.ndjson"), env={"TRACE2": t2})
                run.traces += len(cases)
                run.events += summary["events"]
                for r in rejects:
                    run.violation("%s;runs-differ;%s" % (name, r["case"]), "two runs differ at event %s" % r["l"],
                                  {"family": name, "dir": wd, "line": r["l"]})
        # "depends only on content": a directory that is loaded, edited and loaded again IN ONE PROCESS gives the outcome of its new
        # content (a language server expands the macro again and again in one process)
        if name in ("keys", "plurals", "fallback", "ranges"):
            loadfam.replay_reload(run, cases[:80], tmod, tcfg, lambda c, r, nm=name: _key(nm, "json", None, c, r), trace_env=tenv, tag="_reload_" + name)
        # generated code: the token text of the real code generator must be identical across two fresh runs and
        # across a permutation of the key order (variants 0 = identity and 1 = seeded permutation, both JSON)
        if name in ("fk-families", "values", "keys", "fallback", "plurals"):
            cg = vp.cargo_build("drv_codegen")
            outs = []
            for which, tg in ((0, "a"), (0, "b"), (1, "p")):
                wd = os.path.join(run.workdir, "load_%s_json_%d" % (name, which))
                t = os.path.join(wd, "codegen_%s.ndjson" % tg)
                vp.run_driver(cg, os.path.join(wd, "drv_in.ndjson"), t, len(cases), per_case_timeout=60)
                outs.append((wd, t))
            for (wd, t1), (_, t2), what in ((outs[0], outs[1], "runs"), (outs[0], outs[2], "key-order")):
                summary, rejects, _ = vp.trace_validate("Trace_Same", "Trace_Same.cfg", wd, t1, os.path.join(wd, "cases.ndjson"), env={"TRACE2": t2})
                run.traces += len(cases)
                run.events += summary["events"]
                for r in rejects:
                    run.violation("%s;codegen-differs-across-%s;%s" % (name, what, r["case"]), "generated token text differs across %s at event %s" % (what, r["l"]),
                                  {"family": name, "dir": wd, "line": r["l"]})
    return total


def replay(run, path):
    raise vp.ToolError("replay: re-run `bin/check C10`; the variant directory is recorded in the replay file")
