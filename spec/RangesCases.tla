---------------------------- MODULE RangesCases ----------------------------
(* Bounded universe of range declarations, their spelling as translation     *)
(* files and the expectations used by Trace_Ranges.                           *)
EXTENDS RangesOps

TySym == [i8 |-> <<"i","8">>, i16 |-> <<"i","1","6">>, i32 |-> <<"i","3","2">>, i64 |-> <<"i","6","4">>,
          u8 |-> <<"u","8">>, u16 |-> <<"u","1","6">>, u32 |-> <<"u","3","2">>, u64 |-> <<"u","6","4">>,
          f32 |-> <<"f","3","2">>, f64 |-> <<"f","6","4">>]

\* specs over a set of anchors A (0 = open end)
SpecsOver(A) ==
    { Exact(a) : a \in A }
    \cup { Excl(lo, hi) : lo \in A \cup {0}, hi \in A \cup {0} }
    \cup { Incl(lo, hi) : lo \in A \cup {0}, hi \in A \cup {0} }

Br(alts, tag) == [alts |-> alts, tag |-> tag]
FbVariants == {"none", "wild", "full", "implicit", "first", "double"}

\* the branch list of a declaration: `normal` branches plus the fallback variant
WithFallback(normal, fb) ==
    LET k == Len(normal) IN
    CASE fb = "none"     -> normal
      [] fb = "wild"     -> normal \o <<Br(<<Wild>>, k + 1)>>
      [] fb = "full"     -> normal \o <<Br(<<Full>>, k + 1)>>
      [] fb = "implicit" -> normal \o <<[alts |-> <<Wild>>, tag |-> k + 1, implicit |-> TRUE]>>
      [] fb = "first"    -> <<Br(<<Wild>>, k + 1)>> \o normal
      [] OTHER           -> normal \o <<Br(<<Wild>>, k + 1), Br(<<Full>>, k + 2)>>

\* ---- spelling -----------------------------------------------------------------
CountVar == <<"LB", "LB", "SP", "c", "o", "u", "n", "t", "SP", "RB", "RB">>
ValueOf(b) == BranchTag(b.tag) \o <<"COLON">> \o CountVar

\* sp = [syntax |-> "seq" | "obj", alts |-> "pipe" | "list", num |-> BOOLEAN, ws |-> BOOLEAN]
\* ws: blanks wherever they are harmless - around the bounds, around `..` / `..=`, at both ends - and none around `|`
SpecTextW(s, ty, ws) ==
    IF ~ws THEN SpecText(s, ty) ELSE
    LET A == Anchor[ty]
        B(i) == IF i = 0 THEN <<>> ELSE A[i] IN
    <<"SP">> \o (CASE s.f = "exact" -> A[s.a]
                   [] s.f = "excl"  -> B(s.lo) \o <<"SP", "DOT", "DOT", "SP">> \o B(s.hi)
                   [] s.f = "incl"  -> B(s.lo) \o <<"SP", "DOT", "DOT", "EQ", "SP">> \o B(s.hi)
                   [] s.f = "full"  -> <<"DOT", "DOT">>
                   [] OTHER         -> <<"US">>) \o <<"SP">>
RECURSIVE JoinPipeW(_, _, _)
JoinPipeW(alts, ty, ws) ==
    IF ~ws THEN JoinPipe(alts, ty)
    ELSE IF Len(alts) = 1 THEN SpecTextW(alts[1], ty, ws)
    ELSE SpecTextW(alts[1], ty, ws) \o <<"PIPE">> \o JoinPipeW(Tail(alts), ty, ws)
SpecNode(s, ty, sp) == IF sp.num /\ s.f = "exact" THEN RawSym(Anchor[ty][s.a]) ELSE StrNode(SpecTextW(s, ty, sp.ws))

BranchNode(b, ty, sp) ==
    LET implicit == "implicit" \in DOMAIN b
        counts == IF sp.alts = "pipe" \/ Len(b.alts) = 1
                  THEN << IF Len(b.alts) = 1 THEN SpecNode(b.alts[1], ty, sp) ELSE StrNode(JoinPipeW(b.alts, ty, sp.ws)) >>
                  ELSE [j \in DOMAIN b.alts |-> SpecNode(b.alts[j], ty, sp)] IN
    IF sp.syntax = "seq"
    THEN SeqNode(<<StrNode(ValueOf(b))>> \o (IF implicit THEN <<>> ELSE counts))
    ELSE MapNode((IF implicit THEN <<>>
                  ELSE << <<"count", IF Len(counts) = 1 THEN counts[1] ELSE SeqNode(counts)>> >>)
                 \o << <<"value", StrNode(ValueOf(b))>> >>)

DeclNode(branches, ty, typed, sp) ==
    SeqNode((IF typed THEN <<StrNode(IF sp.ws THEN <<"SP">> \o TySym[ty] \o <<"SP">> ELSE TySym[ty])>> ELSE <<>>) \o [j \in DOMAIN branches |-> BranchNode(branches[j], ty, sp)])

\* count literals that can be tried without risking a (legitimate) rejection of the whole project
Counts(branches, ty) ==
    IF Class(branches, ty) # "accept" THEN {}
    ELSE { c \in Dom : Select(branches, c) # 0 }

CountKey(c) == "c" \o ToString(c)
FkCount(ty, c) == <<"DOL", "t", "LP", "r", "COMMA", "SP", "LB", "QUOT", "c", "o", "u", "n", "t", "QUOT", "COLON", "SP">>
                  \o Anchor[ty][c] \o <<"RB", "RP">>

CaseOf(branches, ty, typed, sp) ==
    LET cs == SortedSeq(Counts(branches, ty)) IN
    [family |-> "ranges",
     abs |-> [branches |-> branches, ty |-> ty, typed |-> typed, sp |-> sp],
     cfg |-> [default |-> "en", locales |-> <<"en">>],
     files |-> << <<"en", MapNode(<< <<"r", DeclNode(branches, ty, typed, sp)>> >>
                                   \o [j \in DOMAIN cs |-> <<CountKey(cs[j]), StrNode(FkCount(ty, cs[j]))>>])>> >>]

\* ---- expectations ---------------------------------------------------------------
\* the literal-count key shows the selected branch's text with the count in place of {{ count }}
ExpectCountTree(branches, ty, c) ==
    LET b == branches[Select(branches, c)]
        s == BranchTag(b.tag) \o <<"COLON">> \o Disp[ty][c] IN
    [lit |-> "String", c |-> << [k |-> "text", s |-> s, tab |-> s] >>]
=============================================================================
