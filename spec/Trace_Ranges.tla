----------------------------- MODULE Trace_Ranges -----------------------------
(* Validates, for every range declaration, the accept/reject class and the    *)
(* branch the real parser chose for each literal count against Select.        *)
EXTENDS RangesCases, Json, IOUtils

Rec   == ndJsonDeserialize(IOEnv.TRACE)
Cases == ndJsonDeserialize(IOEnv.CASES)

VARIABLE l

CaseTags(ev) ==
    LET a == Cases[ev.case].abs
        cls == Class(a.branches, a.ty)
        o == ev.load.outcome IN
    IF o \notin {"Ok", "Err"} THEN {"outcome:" \o o}
    ELSE IF cls = "reject" THEN (IF o = "Err" THEN {} ELSE {"must-reject-got-Ok"})
    ELSE IF cls = "may" THEN {}
    ELSE IF o # "Ok" THEN {"must-accept-got-Err"}
    ELSE LET keys == ev.load.units[1].keys IN
         (IF "r" \notin DOMAIN keys \/ keys["r"].t # "value" \/ keys["r"].kind # "interpol"
               \/ "count" \notin DOMAIN keys["r"].vars \/ keys["r"].vars["count"].count # a.ty
          THEN {"range-key-type"} ELSE {})
         \cup UNION { IF CountKey(c) \notin DOMAIN keys THEN {"nokey:" \o CountKey(c)}
                      ELSE IF keys[CountKey(c)].vals["en"] # ExpectCountTree(a.branches, a.ty, c)
                           THEN {"branch:" \o CountKey(c)} ELSE {}
                    : c \in Counts(a.branches, a.ty) }

Tags(ev) == IF ev.ev = "Load" THEN CaseTags(ev)
            ELSE IF ev.ev = "Crash" THEN {"crash:" \o ev.outcome}
            ELSE {}

TraceInit == l = 1
TraceNext ==
    /\ l <= Len(Rec)
    /\ l' = l + 1
    /\ LET tags == Tags(Rec[l]) IN
         tags = {} \/ PrintT(<<"REJECT", ToJson([l |-> l, case |-> Rec[l].case, tags |-> tags])>>)
TraceSpec == TraceInit /\ [][TraceNext]_l

Post == PrintT(<<"SUMMARY", ToJson([events |-> Len(Rec), consumed |-> TLCGet("stats").diameter - 1])>>)
=============================================================================
