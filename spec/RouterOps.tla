------------------------------ MODULE RouterOps ------------------------------
(* C14  URL locale prefixes are matched by whole segment and rewritten        *)
(* reversibly.  Paths are sequences of segments (strings).                    *)
(* A route is a sequence of segment descriptors                               *)
(*   [t |-> "static", s] | [t |-> "param"] | [t |-> "opt"] | [t |-> "splat"]   *)
(*   | [t |-> "loc", key]      a static segment whose text depends on the locale *)
EXTENDS Common

St(s)  == [t |-> "static", s |-> s, key |-> ""]
Param  == [t |-> "param", s |-> "", key |-> ""]
Opt    == [t |-> "opt", s |-> "", key |-> ""]
Splat  == [t |-> "splat", s |-> "", key |-> ""]
Loc(k) == [t |-> "loc", s |-> "", key |-> k]

\* text of the localized segments, per key and locale
LocName == [ about |-> [en |-> "about", fr |-> "a-propos", enUS |-> "about-us", fra |-> "apropos"],
             users |-> [en |-> "users", fr |-> "utilisateurs", enUS |-> "users", fra |-> "usagers"] ]

SegText(d, x) == IF d.t = "loc" THEN LocName[d.key][x] ELSE d.s

NoMatch == <<"__NOMATCH__">>
\* re-spell path `ps`, which route `rs` matches in locale a, in locale b
RECURSIVE Rebuild(_, _, _, _)
Rebuild(rs, ps, a, b) ==
    IF rs = <<>> THEN (IF ps = <<>> THEN <<>> ELSE NoMatch)
    ELSE LET d == Head(rs) IN
         IF d.t = "splat" THEN ps
         ELSE IF d.t = "opt"
              THEN LET present == IF ps = <<>> THEN NoMatch
                                  ELSE LET r == Rebuild(Tail(rs), Tail(ps), a, b) IN IF r = NoMatch THEN NoMatch ELSE <<ps[1]>> \o r IN
                   IF present # NoMatch THEN present ELSE Rebuild(Tail(rs), ps, a, b)
         ELSE IF ps = <<>> THEN NoMatch
         ELSE IF d.t = "param"
              THEN LET r == Rebuild(Tail(rs), Tail(ps), a, b) IN IF r = NoMatch THEN NoMatch ELSE <<ps[1]>> \o r
         ELSE IF ps[1] # SegText(d, a) THEN NoMatch
              ELSE LET r == Rebuild(Tail(rs), Tail(ps), a, b) IN IF r = NoMatch THEN NoMatch ELSE <<SegText(d, b)>> \o r

\* the part of the path after base and locale prefix, re-spelled for locale b: first matching route, else unchanged
Localize(table, rest, a, b) ==
    LET I == { i \in DOMAIN table : Rebuild(table[i], rest, a, b) # NoMatch } IN
    IF I = {} THEN rest ELSE Rebuild(table[CHOOSE i \in I : \A j \in I : i <= j], rest, a, b)

Matches(table, rest, x) == \E i \in DOMAIN table : Rebuild(table[i], rest, x, x) # NoMatch

Prefix(x, names, default) == IF x = default THEN <<>> ELSE <<names[x]>>

\* names: locale -> its name in URLs;  base: sequence of segments
PathOf(base, x, rest, names, default) == base \o Prefix(x, names, default) \o rest

\* which locale a path reads as: the first segment after the base must EQUAL a locale name
ReadLocale(path, base, names) ==
    IF Len(path) > Len(base) /\ SubSeq(path, 1, Len(base)) = base /\ \E x \in DOMAIN names : names[x] = path[Len(base) + 1]
    THEN CHOOSE x \in DOMAIN names : names[x] = path[Len(base) + 1]
    ELSE None

\* ---- the N + 1 route families of an I18nRoute ----------------------------------------------------------
\* Binding of a route's parameters by a path (leptos_router's rule: an optional parameter is taken when the rest still matches).
\* Result: [ok |-> BOOLEAN, b |-> set of <<parameter name, sequence of segments>>]
ParamName == [param |-> "p", opt |-> "o", splat |-> "s"]
BindFail == [ok |-> FALSE, b |-> {}]
RECURSIVE Bind(_, _, _)
Bind(rs, ps, x) ==
    IF rs = <<>> THEN (IF ps = <<>> THEN [ok |-> TRUE, b |-> {}] ELSE BindFail)
    ELSE LET d == Head(rs) IN
         IF d.t = "splat" THEN [ok |-> TRUE, b |-> {<<"s", ps>>}]
         ELSE IF d.t = "opt"
              THEN LET present == IF ps = <<>> THEN BindFail
                                  ELSE LET r == Bind(Tail(rs), Tail(ps), x) IN
                                       IF r.ok THEN [ok |-> TRUE, b |-> r.b \cup {<<"o", <<ps[1]>>>>}] ELSE BindFail IN
                   IF present.ok THEN present ELSE Bind(Tail(rs), ps, x)
         ELSE IF ps = <<>> THEN BindFail
         ELSE IF d.t = "param"
              THEN LET r == Bind(Tail(rs), Tail(ps), x) IN IF r.ok THEN [ok |-> TRUE, b |-> r.b \cup {<<"p", <<ps[1]>>>>}] ELSE BindFail
         ELSE IF ps[1] # SegText(d, x) THEN BindFail ELSE Bind(Tail(rs), Tail(ps), x)

\* first route of the table (spelled in locale x) that the path matches, 0 if none
RouteOf(table, ps, x) ==
    LET I == { i \in DOMAIN table : Bind(table[i], ps, x).ok } IN
    IF I = {} THEN 0 ELSE CHOOSE i \in I : \A j \in I : i <= j

\* what the route families make of a URL (path below the router's base):
\*   one family per locale in declaration order, entered only when the first segment EQUALS the locale's name and one of its
\*   routes matches the rest; else the prefix-less family, spelled in the default locale; else nothing
NoRoute == [matched |-> FALSE, loc |-> None, prefix |-> "", route |-> 0, b |-> {}]
MatchUrl(path, names, order, default, table) ==
    LET P == { i \in DOMAIN order : path # <<>> /\ path[1] = names[order[i]] /\ RouteOf(table, Tail(path), order[i]) # 0 } IN
    IF P # {}
    THEN LET x == order[CHOOSE i \in P : \A j \in P : i <= j]
             r == RouteOf(table, Tail(path), x) IN
         [matched |-> TRUE, loc |-> x, prefix |-> names[x], route |-> r, b |-> Bind(table[r], Tail(path), x).b]
    ELSE LET r == RouteOf(table, path, default) IN
         IF r = 0 THEN NoRoute
         ELSE [matched |-> TRUE, loc |-> None, prefix |-> "", route |-> r, b |-> Bind(table[r], path, default).b]

\* the route list an I18nRoute generates: per locale (declaration order) its name then the route in its spelling; then the
\* prefix-less family in the default locale's spelling
GenSeg(d, x) == IF d.t \in {"static", "loc"} THEN [t |-> "static", s |-> SegText(d, x)] ELSE [t |-> d.t, s |-> ParamName[d.t]]
GenRoute(r, x) == [i \in DOMAIN r |-> GenSeg(r[i], x)]
GenRoutes(names, order, default, table) ==
    Cat([i \in DOMAIN order |-> [j \in DOMAIN table |-> << [t |-> "static", s |-> names[order[i]]] >> \o GenRoute(table[j], order[i])]])
    \o [j \in DOMAIN table |-> GenRoute(table[j], default)]

\* how "/a/b" splits on "/":  <<"", "a", "b">>;  the root "/" is <<"", "">>
RawSplit(segs) == IF segs = <<>> THEN <<"", "">> ELSE <<"">> \o segs
=============================================================================
