CONSTANTS
  Locales = {"en", "fr"}
  Default = "en"
  None = "none"
  MaxUser = 3
  UserRaces = FALSE
SPECIFICATION Spec
INVARIANTS Agree Honoured
CHECK_DEADLOCK FALSE
