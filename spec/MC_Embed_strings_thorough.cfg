CONSTANTS
  Units <- MCUnits
  Alphabet <- MCAlphabet
  MaxLen = 4
SPECIFICATION MCSpec
INVARIANTS RoundTrip ScriptSafe EmitCases
CONSTRAINT StringOnly
CHECK_DEADLOCK FALSE
