----------------------------- MODULE Trace_Context -----------------------------
(* Stateful validation of recorded context behaviours: every logged operation  *)
(* is matched to the specification action of the same name with the logged      *)
(* arguments, and the logged observation (locale shown by every view, text of   *)
(* every accessor) must equal the specification's after the step.               *)
EXTENDS Context, Json, IOUtils

Rec == ndJsonDeserialize(IOEnv.TRACE)
VARIABLE l
tvars == <<ctxs, views, accs, hist, l>>

Reject(i, tags) == PrintT(<<"REJECT", ToJson([l |-> i, case |-> Rec[i].case, tags |-> tags])>>)

\* o: the logged observation, m: the specification's observation (after the step)
ObsTags(o, m) ==
    (IF o.views = m.views THEN {} ELSE {"view-locale"})
    \cup (IF o.accs = m.accs THEN {} ELSE {"accessor-text"})

OpAction(op) ==
    CASE op.op = "create_main" ->
            /\ ctxs' = << [locale |-> MainLocale(op.enable, op.cookie, op.header), parent |-> 0] >>
            /\ views' = << [ctx |-> 1, depth |-> 0] >> /\ accs' = <<>> /\ hist' = <<op>>
      [] op.op = "create_sub" -> CreateSubVia(op.parent, op.cookieOn, op.cookie, op.initial, op.header, IF "via" \in DOMAIN op THEN op.via ELSE "init")
      [] op.op = "lookup" -> Lookup(op.ctx)
      [] op.op = "set" -> SetLocale(op.view, op.locale, op.tracked)
      [] op.op = "scope" -> ScopeView(op.view)
      [] op.op = "make_accessor" -> MakeAccessor(op.view, op.key, op.flavour)

TraceInit == l = 1 /\ ctxs = <<>> /\ views = <<>> /\ accs = <<>> /\ hist = <<>>

TraceNext ==
    /\ l <= Len(Rec)
    /\ l' = l + 1
    /\ LET ev == Rec[l] IN
       IF ev.ev = "Crash" THEN Reject(l, {"crash:" \o ev.outcome}) /\ UNCHANGED <<ctxs, views, accs, hist>>
       ELSE IF ev.ev # "Ctx" THEN UNCHANGED <<ctxs, views, accs, hist>>
       ELSE IF ev.outcome # "Ok" THEN Reject(l, {"outcome:" \o ev.outcome}) /\ UNCHANGED <<ctxs, views, accs, hist>>
       ELSE /\ OpAction(ev.op)
            /\ LET tags == ObsTags(ev.obs, Obs')
                           \cup (IF ev.op.op = "create_main" /\ ev.obs.resolve # MainLocale(ev.op.enable, ev.op.cookie, ev.op.header)
                                 THEN {"resolve_locale"} ELSE {}) IN
               tags = {} \/ Reject(l, tags)

TraceSpec == TraceInit /\ [][TraceNext]_tvars
Post == PrintT(<<"SUMMARY", ToJson([events |-> Len(Rec), consumed |-> TLCGet("stats").diameter - 1])>>)
=============================================================================
