"""C14  URL locale prefixes are matched by whole segment and rewritten reversibly."""
import itertools
import json
import os
import shutil

import vp
from checks import loadfam

LOC_NAMES = {"about": {"en": "about", "fr": "a-propos", "enUS": "about-us", "fra": "apropos"},
             "users": {"en": "users", "fr": "utilisateurs", "enUS": "users", "fra": "usagers"}}


def base_texts(base):
    return ["", "/"] if not base else ["app", "/app", "app/", "/app/"]


def switch_seqs(locales, cur, depth):
    out = []

    def rec(seq, c):
        if seq:
            out.append(list(seq))
        if len(seq) == depth:
            return
        for b in locales:
            if b != c:
                rec(seq + [b], b)
    rec([], cur)
    # maximal sequences only (a prefix is replayed by its extensions)
    return [s for s in out if len(s) == depth]


def key_of(r, ev, row):
    if ev.get("ev") == "Match":
        return "match;set=%s;table=%s;base=%r;path=%s;%s" % (row["set"], row["table"], row["base"], ev["path"], sorted(r["tags"])[0])
    if ev.get("ev") == "Routes":
        return "routes;set=%s;table=%s" % (row["set"], row["table"])
    if ev.get("op") == "read":
        return "read;set=%s;base=%r;path=%s" % (row["set"], ev["base_text"], ev["path"])
    return "switch;set=%s;base=%r;%s->%s;in=%s;%s" % (row["set"], ev["base_text"], ev["from"], ev["to"], ev["in_path"], sorted(r["tags"])[0])


def check(run):
    quick = run.tier == "quick"
    cases, res = loadfam.gen_cases(run, "MC_Router", "MC_Router_%s.cfg" % run.tier, timeout=7200)
    if len(cases) < 100:
        raise vp.ToolError("MC_Router produced too few cases")
    # design-level model of the client-side synchronisation protocol (effects, popstate, deferred navigations): not bound to the
    # code (no browser here, DESIGN 0.6) and deciding nothing about C14; it is model-checked with the rest of the specification so
    # that it stays consistent: type invariant and settling must hold, the two recorded observations must still be refuted
    rs = vp.tlc("RouterSync", "MC_RouterSync.cfg" if quick else "MC_RouterSync_thorough.cfg", run.workdir, workers=4)
    vp.tlc_ok(rs, "RouterSync")
    run.add_mc("RouterSync (design-level, unbound: TypeOK, Settles)", rs)
    obs = vp.tlc("RouterSync", "MC_RouterSync_observations.cfg", run.workdir, workers=1)
    run.notes["RouterSync_observations_refuted"] = obs["violated"]
    if obs["violated"] not in ("Agree", "Honoured"):
        raise vp.ToolError("RouterSync: the recorded observations (Agree / Honoured refuted) no longer reproduce: %r" % (obs["violated"],))
    depth = 2 if quick else 3
    rows = []
    for i, c in enumerate(cases):
        a = c["abs"]
        names = a["names"]
        prefix = [] if a["cur"] == a["default"] else [names[a["cur"]]]
        segs = list(a["base"]) + prefix + list(a["rest"])
        start = "/" + "/".join(segs)
        rows.append({"case": i + 1, "mode": "router", "set": a["set"], "names": names, "table": a["table"], "loc_names": LOC_NAMES,
                     "base_texts": base_texts(a["base"]), "start_path": start, "cur": a["cur"],
                     "switch_seqs": switch_seqs(sorted(names), a["cur"], depth)})
    # the same URLs with the EXPLICIT prefix of the default locale (/en/about): they read as the default locale too, and a switch
    # away from them must drop that prefix like any other
    extra_cases = []
    for i, c in enumerate(list(cases)):
        a = c["abs"]
        if a["cur"] == a["default"] and i % 3 == 0:
            segs = list(a["base"]) + [a["names"][a["cur"]]] + list(a["rest"])
            row = dict(rows[i])
            row["case"] = len(cases) + len(extra_cases) + 1
            row["start_path"] = "/" + "/".join(segs)
            rows.append(row)
            extra_cases.append(c)
    cases = cases + extra_cases
    # the real I18nRoute: one case per (locale set, table, base), URLs enumerated by MC_Routes
    rcases, _ = loadfam.gen_cases(run, "MC_Routes", "MC_Routes_%s.cfg" % run.tier, workers=1, timeout=3600)
    if len(rcases) != 12:
        raise vp.ToolError("MC_Routes produced %d cases" % len(rcases))
    n_switch = len(cases)
    for j, c in enumerate(rcases):
        a = c["abs"]
        rows.append({"case": n_switch + j + 1, "mode": "routes", "set": a["set"], "table": a["tname"], "base": ("/" + "/".join(a["base"])) if a["base"] else "",
                     "paths": ["/" + "/".join(p) for p in c["paths"]]})
    cases = cases + rcases
    run.notes["route_family_urls"] = sum(len(c["paths"]) for c in rcases)
    wd = os.path.join(run.workdir, "router")
    shutil.rmtree(wd, ignore_errors=True)
    os.makedirs(wd)
    binary = vp.cargo_build("drv_router")
    cases_path = os.path.join(wd, "cases.ndjson")
    vp.write_ndjson(cases_path, [{"id": i + 1, "abs": c["abs"]} for i, c in enumerate(cases)])
    drv_in = os.path.join(wd, "drv_in.ndjson")
    vp.write_ndjson(drv_in, rows)
    trace_path = os.path.join(wd, "trace.ndjson")
    vp.run_driver(binary, drv_in, trace_path, len(rows), per_case_timeout=60)
    summary, rejects, _ = vp.trace_validate("Trace_Router", "Trace_Router.cfg", wd, trace_path, cases_path, timeout=3600)
    if summary["consumed"] != summary["events"]:
        raise vp.ToolError("trace spec consumed %s of %s events" % (summary["consumed"], summary["events"]))
    run.traces += len(rows)
    run.events += summary["events"]
    run.cases += len(rows)
    if rejects:
        events = vp.read_ndjson(trace_path)
        for r in rejects:
            ev = events[r["l"] - 1]
            run.violation(key_of(r, ev, rows[r["case"] - 1]), "event %d tags %s" % (r["l"], sorted(r["tags"])),
                          {"tags": sorted(r["tags"]), "event": ev, "case": cases[r["case"] - 1]["abs"]})
    run.samples = [cases[n_switch // 2]["abs"], {k: v for k, v in rcases[0]["abs"].items() if k != "table"}]
    run.exhaustive = True
    run.assumptions = ["locale sets {en,fr}, {en,en-US,fr}, {fr,fra,en} (names that are prefixes of each other and of ordinary words), base paths none / app in every spelling the documentation allows, "
                       "3 route tables (static, param, optional, splat, localized segments), paths of <= 2 words below the prefix, switch sequences of the tier's depth fed back into the code",
                       "the private path functions are reached through the guarded `verif_hooks` feature; the router's effects / history handling need a browser and are not covered",
                       "route families: a real <I18nRoute> with tables T1 / T2 is built natively per locale set; RouteDefs::match_route on every URL of the bounded universe (first segment: each locale name, words starting with a locale name, none) must agree with MatchUrl (locale, route parameters) and generate_routes with GenRoutes; URLs that do not start with the base by whole segments are only required not to be claimed",
                       "paths are canonical (no empty segments); the first segment below the prefix is never itself a locale name"]
    return run.finish("every (locale set, base, route table, path, current locale) of the bounded universe, read + every maximal switch sequence; "
                      "non-trivial: every case", {"distinct_nontrivial": len(cases)})


def replay(run, path):
    raise vp.ToolError("replay: re-run `bin/check C14`; the URL, locales and route table are in the replay file")
