------------------------------ MODULE Trace_Access ------------------------------
(* Every accessor flavour, through every scoping of the key path, must render   *)
(* DenoteEntry(locale, full path, env, count): the right-hand side mentions      *)
(* neither the flavour nor the split between scope and key.                     *)
EXTENDS Access

Rec == ndJsonDeserialize(IOEnv.TRACE)
VARIABLE l

Tags(ev) ==
    IF ev.ev # "Access" THEN {}
    ELSE IF ev.outcome # "Ok" THEN {"outcome:" \o ev.outcome \o ":" \o ev.flavour}
    ELSE IF ev.out = DenoteEntry(ev.locale, ev.path, ev.env, ev.count) THEN {}
         ELSE {"text:" \o ev.flavour \o ":" \o ev.locale \o ":" \o ev.path}

TraceInit == l = 1 /\ loc = "en" /\ prefix = "root"
TraceNext ==
    /\ l <= Len(Rec)
    /\ l' = l + 1 /\ UNCHANGED <<loc, prefix>>
    /\ LET tags == Tags(Rec[l]) IN
         tags = {} \/ PrintT(<<"REJECT", ToJson([l |-> l, case |-> 1, tags |-> tags])>>)
TraceSpec == TraceInit /\ [][TraceNext]_<<l, loc, prefix>>
Post == PrintT(<<"SUMMARY", ToJson([events |-> Len(Rec), consumed |-> TLCGet("stats").diameter - 1])>>)
=============================================================================
