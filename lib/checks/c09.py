"""C09  Loading translations never panics or hangs, whatever the files contain."""
import json
import random

import vp
from checks import loadfam


def _key(c, r):
    if c.get("mode") == "value":
        return "value:" + " ".join(c["s"])
    a = c.get("abs") or {}
    if "name" in a:
        if a["name"] == "config-adv":
            return "project:config-adv:%s" % json.dumps([c["cfg"].get("default"), c["cfg"].get("locales"), c["cfg"].get("namespaces")])
        if a["name"] in ("range-adv", "key-adv", "plural-adv", "name-adv", "inherits-loop", "fmt-adv", "ns-adv"):      # generated universes: tell the members apart by content
            return "project:%s:%s" % (a["name"], json.dumps([c["cfg"].get("inherits"), [f[1]["e"] for f in c["files"]]], sort_keys=True)[:500])
        return "project:" + a["name"]
    if "s" in a:
        return "project-of-value:" + " ".join(a["s"])
    return "case:" + vp.fingerprint(a)


def wrap_project(s):
    """one adversarial string as the only value of a one-key project (blast radius: one per project)"""
    return {"family": "adversarial-project", "abs": {"s": s, "class": "any"},
            "cfg": {"default": "en", "locales": ["en", "fr"]},
            "files": [["en", {"t": "map", "e": [["a", {"t": "str", "s": ["x"]}], ["k", {"t": "str", "s": s}]]}],
                      ["fr", {"t": "map", "e": [["a", {"t": "str", "s": ["y"]}], ["k", {"t": "str", "s": s}]]}]]}


def check(run):
    quick = run.tier == "quick"
    rng = random.Random(run.seed)
    strings, res = loadfam.gen_cases(run, "MC_Adversarial", "MC_Adversarial_%s.cfg" % run.tier, workers=12, timeout=7200)
    if len(strings) < 1000:
        raise vp.ToolError("MC_Adversarial produced too few strings")
    robust, res2 = loadfam.gen_cases(run, "MC_Robust", "MC_Robust_%s.cfg" % run.tier, workers=1)
    run.samples = [{"string": strings[len(strings) // 2]["s"]}, {"project": robust[3]["abs"]}]
    n_proj = 1500 if quick else 20000
    sample = strings if len(strings) <= n_proj else rng.sample(strings, n_proj)
    # strings with a foreign key are the interesting ones for the pipeline: always include them
    with_fk = [s for s in strings if "DOL" in s["s"]]
    if len(with_fk) > n_proj:
        with_fk = rng.sample(with_fk, n_proj)
    projects = [wrap_project(s["s"]) for s in sample + with_fk]
    # the very long / very deep inputs are slow but terminate (the closing-tag search is quadratic): they get their own, generous
    # time limit; everything else is small and must answer quickly, so that a genuine hang costs seconds, not minutes
    def _is_big(c):
        nm = (c.get("abs") or {}).get("name", "")
        return any(nm.startswith(p) for p in ("many-", "nested-", "unclosed-", "open-braces-")) and int(nm.rsplit("-", 1)[1]) >= 3000
    big = [c for c in robust if _is_big(c)]
    robust = [c for c in robust if not _is_big(c)]
    for build, variant in ((("json",), "json"), (("json", "quote"), "json-quote")):
        tag = "_" + variant
        loadfam.replay_load(run, strings, "Trace_Robust", "Trace_Robust.cfg", build_features=build, variant=variant,
                            key_of=_key, tag=tag + "_values")
        loadfam.replay_load(run, robust + projects, "Trace_Robust", "Trace_Robust.cfg", build_features=build, variant=variant,
                            key_of=_key, tag=tag + "_projects", per_case_timeout=30)
        if big:
            loadfam.replay_load(run, big, "Trace_Robust", "Trace_Robust.cfg", build_features=build, variant=variant,
                                key_of=_key, tag=tag + "_big", per_case_timeout=900)
    # the build-script API parses with skip_icu_cfg = true
    loadfam.replay_load(run, robust + projects[:500], "Trace_Robust", "Trace_Robust.cfg", skip_icu=True,
                        key_of=_key, tag="_buildapi", per_case_timeout=30)
    # code generation (the real generator of leptos_i18n_macro, in-process) on the same projects
    loadfam.replay_load(run, robust + projects, "Trace_Robust", "Trace_Robust.cfg", package="drv_codegen",
                        key_of=_key, tag="_codegen", per_case_timeout=60)
    if big:
        loadfam.replay_load(run, big, "Trace_Robust", "Trace_Robust.cfg", package="drv_codegen",
                            key_of=_key, tag="_codegen_big", per_case_timeout=900)
    # the same adversarial projects written as YAML and as JSON5 (their readers type literals differently and can spell numbers JSON
    # cannot: .inf / Infinity / NaN), through the parser and the code generator built for that format
    for fmt in ("yaml", "json5"):
        loadfam.replay_load(run, robust, "Trace_Robust", "Trace_Robust.cfg", package="drv_codegen", codegen_fmt=fmt, fmt=fmt,
                            key_of=lambda c, r, f=fmt: f + ";" + _key(c, r), tag="_codegen_" + fmt, per_case_timeout=60)
    run.exhaustive = True
    run.notes["strings"] = len(strings)
    run.notes["adversarial_projects"] = len(robust)
    run.assumptions = ["all strings of at most MaxLex lexemes over a 16-lexeme adversarial alphabet ({{ }} < > / $t( ) , { } \" a e-acute SP NBSP emoji)",
                       "model-generated robustness testing: bounded alphabet and length, not a proof",
                       "a violation is identified by its input (the same input is sent through two parser builds, the build API and the code generator); the time limit is 30 s per project (60 s for code generation) and 15 minutes for the inputs of 3 000 pieces / levels and more: the closing-tag search is quadratic in the number of tags, which is slow for 30 000 components (about a minute) but terminates",
                       "code generation: the `load_locales` / `utils` modules of leptos_i18n_macro are included by path into a driver and the real load_locales() runs in-process on every project"]
    return run.finish("every string of the bounded adversarial language through ParsedValue::new (two builds) and, one per project, "
                      "through parse_locales; plus grammar-aware adversarial projects; non-trivial: strings containing a delimiter",
                      {"distinct_nontrivial": sum(1 for s in strings if any(x in ("LT", "LB", "DOL") for x in s["s"]))})


def replay(run, path):
    rp = json.load(open(path))["replay"]
    loadfam.replay_load(run, [rp["case"]], "Trace_Robust", "Trace_Robust.cfg", keep_dirs=True)
    return run.finish("replay of one recorded case")
