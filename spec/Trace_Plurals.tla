---------------------------- MODULE Trace_Plurals ----------------------------
(* Validates plural merging, unused-form diagnostics and the form the real    *)
(* parser chose for literal counts, per locale, against Merge / FormFor with  *)
(* CLDR categories supplied as data (direct ICU4X calls of the driver).       *)
EXTENDS PluralsCases, Json, IOUtils

Rec    == ndJsonDeserialize(IOEnv.TRACE)
Cases  == ndJsonDeserialize(IOEnv.CASES)
Oracle == JsonDeserialize(IOEnv.ORACLE)

VARIABLE l

TextTree(s) == [lit |-> "String", c |-> << [k |-> "text", s |-> s, tab |-> s] >>]
TextPieces(s) == << [k |-> "text", s |-> s, tab |-> s] >>

LocSet == Range(Locs)

PluralTags(ev, res) ==
    LET keys == ev.load.units[1].keys
        want == {"k", "m_one"} \cup { "c" \o ToString(i) : i \in DOMAIN CountToks } IN
    IF DOMAIN keys # want THEN {"keyset"}
    ELSE
      (IF keys["k"].kind # "interpol" \/ "count" \notin DOMAIN keys["k"].vars \/ keys["k"].vars["count"].count # "plural"
         THEN {"plural-key-signature"} ELSE {})
      \cup UNION { LET v == keys["k"].vals[x] IN
                     IF Len(v.c) # 1 \/ v.c[1].k # "plurals" THEN {"not-plural:" \o x}
                     ELSE (IF v.c[1].rt # res.ty THEN {"rule-type:" \o x} ELSE {})
                          \cup (IF DOMAIN v.c[1].forms # res.forms THEN {"forms:" \o x}
                                ELSE UNION { IF v.c[1].forms[f] # TextPieces(FormText(M(f, res.ty))) THEN {"form-text:" \o x \o ":" \o f} ELSE {}
                                             : f \in res.forms })
                 : x \in LocSet }
      \cup UNION { UNION { LET cat  == Oracle.cats[x][res.ty][CountToks[i]]
                               form == FormFor(res.forms, cat) IN
                             IF keys["c" \o ToString(i)].vals[x] # TextTree(FormText(M(form, res.ty)))
                             THEN {"selected:" \o x \o ":" \o CountToks[i]} ELSE {}
                         : i \in DOMAIN CountToks } : x \in LocSet }
      \cup (LET got == SelectSeq(ev.load.warns, LAMBDA w : w.kind = "unused")
                exp == { [kind |-> "unused", locale |-> x, at |-> [ns |-> (IF "NS" \in DOMAIN IOEnv THEN IOEnv.NS ELSE None), path |-> <<"k">>], form |-> f, rt |-> res.ty]
                         : x \in LocSet, f \in res.forms } IN
            LET expU == { w \in exp : w.form \notin Range(Oracle.categories[w.locale][res.ty]) } IN
            (IF Range(got) # expU THEN {"unused-warnings"} ELSE {})
            \cup (IF Len(got) # Cardinality(Range(got)) THEN {"unused-warnings-duplicated"} ELSE {}))

PlainTags(ev, a) ==
    LET keys == ev.load.units[1].keys
        want == { KeyName("k", m) : m \in a.members } \cup (IF a.baseIsKey THEN {"k"} ELSE {}) \cup {"m_one"} IN
    (IF DOMAIN keys # want THEN {"keyset"} ELSE {})
    \cup (IF \E w \in Range(ev.load.warns) : w.kind = "unused" THEN {"unused-warning-for-plain-keys"} ELSE {})

\* the project with several plural keys: every key is a plural with six forms, and the unused-form diagnostics are exactly one per
\* (locale, key path, form the locale's rules never select)
MultiTags(ev, a) ==
    IF ev.load.outcome # "Ok" THEN {"multi-outcome:" \o ev.load.outcome}
    ELSE
      LET keys == ev.load.units[1].keys
          ns   == IF "NS" \in DOMAIN IOEnv THEN IOEnv.NS ELSE None
          got  == SelectSeq(ev.load.warns, LAMBDA w : w.kind = "unused")
          exp  == { [kind |-> "unused", locale |-> x, at |-> [ns |-> ns, path |-> <<a.top[i]>>], form |-> f, rt |-> "cardinal"]
                    : x \in LocSet, i \in DOMAIN a.top, f \in Range(AllForms) }
                  \cup { [kind |-> "unused", locale |-> x, at |-> [ns |-> ns, path |-> <<"g", a.nested[i]>>], form |-> f, rt |-> "ordinal"]
                    : x \in LocSet, i \in DOMAIN a.nested, f \in Range(AllForms) }
          expU == { w \in exp : w.form \notin Range(Oracle.categories[w.locale][w.rt]) } IN
      (IF DOMAIN keys # Range(a.top) \cup {"g", "d", "a0_one", "a0_two"} \cup { "e" \o ToString(i) : i \in DOMAIN CountToks } THEN {"multi-keyset"}
       ELSE IF keys["g"].t # "sub" \/ DOMAIN keys["g"].keys # Range(a.nested) \cup {"a0_one", "a0_two"} THEN {"multi-nested-keyset"}
       ELSE UNION { IF \A x \in LocSet : Len(keys[b].vals[x].c) = 1 /\ keys[b].vals[x].c[1].k = "plurals"
                                          /\ DOMAIN keys[b].vals[x].c[1].forms = Range(AllForms)
                    THEN {} ELSE {"multi-not-six-forms:" \o b} : b \in Range(a.top) })
      \* e<i> = $t(d, {"count": tok i}) in locale x shows the form of d (written in the default locale only) that x's rules select
      \cup (IF DOMAIN keys # Range(a.top) \cup {"g", "d", "a0_one", "a0_two"} \cup { "e" \o ToString(i) : i \in DOMAIN CountToks } THEN {}
            ELSE UNION { UNION { LET form == FormFor(Range(AllForms), Oracle.cats[x]["cardinal"][CountToks[i]]) IN
                                   IF keys["e" \o ToString(i)].vals[x] # TextTree(<<"d", "DASH">> \o FormText(M(form, "cardinal")))
                                   THEN {"multi-defaulted-plural-count:" \o x \o ":" \o CountToks[i]} ELSE {}
                                 : i \in DOMAIN CountToks } : x \in LocSet })
      \cup (IF Range(got) # expU \cup { [kind |-> "unused", locale |-> "en", at |-> [ns |-> ns, path |-> <<"d">>], form |-> f, rt |-> "cardinal"]
                                        : f \in { g \in Range(AllForms) : g \notin Range(Oracle.categories["en"]["cardinal"]) } }
            THEN {"multi-unused-warnings"} ELSE {})
      \cup (IF Len(got) # Cardinality(Range(got)) THEN {"multi-unused-warnings-duplicated"} ELSE {})

CaseTags(ev) ==
    IF "multi" \in DOMAIN Cases[ev.case].abs THEN MultiTags(ev, Cases[ev.case].abs) ELSE
    LET a == Cases[ev.case].abs
        ms == Range(a.members)            \* JSON array back to a set
        res == Merge(ms, a.baseIsKey)
        o == ev.load.outcome IN
    IF o \notin {"Ok", "Err"} THEN {"outcome:" \o o}
    ELSE IF res.kind = "error" THEN (IF o = "Err" THEN {} ELSE {"must-reject-" \o res.why \o "-got-Ok"})
    ELSE IF o # "Ok" THEN {"must-accept-got-Err"}
    ELSE IF res.kind = "plural" THEN PluralTags(ev, res)
    ELSE PlainTags(ev, [members |-> ms, baseIsKey |-> a.baseIsKey])

\* L2: run-time selection by generated code.  key "k": six cardinal forms, "o": six ordinal forms, "m": cardinal one / other only,
\* "tp" / "tpo": td_plural! / td_plural_ordinal! with arms one and _.
RenderTags(ev) ==
    LET ty == IF ev.key \in {"o", "tpo", "tpo6"} THEN "ordinal" ELSE "cardinal"
        cat == Oracle.cats[ev.locale][ty][ev.tok]
        \* key d is defined (all six forms) in the default locale only: a defaulted plural still follows the rendered locale's rules
        \* (ev.cty: the Rust type the count was given in - the form depends on the number, not on its type)
        want == CASE ev.key \in {"k", "d"} -> FormText(M(cat, "cardinal"))
                  [] ev.key = "o" -> FormText(M(cat, "ordinal"))
                  [] ev.key = "m" -> FormText(M(FormFor({"one", "other"}, cat), "cardinal"))
                  \* td_plural! / td_plural_ordinal! with an arm for every form (`_` and `other` are the same arm)
                  [] ev.key \in {"tp6", "tpo6"} -> FormSym[cat]
                  [] OTHER -> FormSym[FormFor({"one", "other"}, cat)] IN
    IF ev.outcome # "Ok" THEN {"render-outcome:" \o ev.outcome}
    ELSE IF ev.out = want THEN {} ELSE {"run-time-form:" \o ev.key \o ":" \o ev.locale}

Tags(ev) == IF ev.ev = "Load" THEN CaseTags(ev)
            ELSE IF ev.ev = "Render" THEN RenderTags(ev)
            ELSE IF ev.ev = "Crash" THEN {"crash:" \o ev.outcome}
            ELSE {}

TraceInit == l = 1
TraceNext ==
    /\ l <= Len(Rec)
    /\ l' = l + 1
    /\ LET tags == Tags(Rec[l]) IN
         tags = {} \/ PrintT(<<"REJECT", ToJson([l |-> l, case |-> Rec[l].case, tags |-> tags])>>)
TraceSpec == TraceInit /\ [][TraceNext]_l

Post == PrintT(<<"SUMMARY", ToJson([events |-> Len(Rec), consumed |-> TLCGet("stats").diameter - 1])>>)
=============================================================================
