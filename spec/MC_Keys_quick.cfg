CONSTANTS
  DefTrees <- MCDefTrees
  LocTrees <- MCLocTrees
  K2 = {"val"}
  S2 = {"val"}
  Z = {"abs"}
SPECIFICATION MCSpec
INVARIANTS WarnsExact ErrIffMismatch NoneForDefault EmitCases EmitNullCases EmitCrossCases
PROPERTY Termination
CHECK_DEADLOCK FALSE
