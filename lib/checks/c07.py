"""C07  Key sets are checked against the default locale, with exact diagnostics."""
import json

import vp
from checks import loadfam


def _mismatch(d, t):
    for k in set(d) & set(t) if isinstance(d, dict) and isinstance(t, dict) else ():
        a, b = d[k], t[k]
        if a["t"] == "null" or b["t"] == "null":
            continue
        if (a["t"] == "group") != (b["t"] == "group"):
            return True
        if a["t"] == "group" and _mismatch(a["c"], b["c"]):
            return True
    return False


def _has_null(d):
    return isinstance(d, dict) and any(n["t"] == "null" or (n["t"] == "group" and _has_null(n["c"])) for n in d.values())


def _loads(c):
    return not _mismatch(c["abs"]["def"], c["abs"]["loc"]) and not _mismatch(c["abs"]["def"], c["abs"].get("loc2", {})) and not _has_null(c["abs"]["def"])


def _key(c, r):
    return "def=%s;loc=%s%s;%s" % (json.dumps(c["abs"]["def"], sort_keys=True), json.dumps(c["abs"]["loc"], sort_keys=True),
                                  (";loc2=" + json.dumps(c["abs"]["loc2"], sort_keys=True)) if "loc2" in c["abs"] else "", sorted(r["tags"])[0])


def leaf_paths(tree, prefix=()):
    out = []
    for k, n in (tree.items() if isinstance(tree, dict) else []):
        if n["t"] == "group":
            out += leaf_paths(n["c"], prefix + (k,))
        elif n["t"] == "val":
            out.append(prefix + (k,))
    return out


def run_l2(run, cases, nprojects):
    """reachability from generated code: one small binary per candidate key path (leaves of the default tree and of the locale tree)"""
    import os
    import random
    import probe
    rng = random.Random(run.seed)
    def ok(c):
        d, t = c["abs"]["def"], c["abs"]["loc"]
        return isinstance(d, dict) and isinstance(t, dict) and set(map(tuple, leaf_paths(t))) - set(map(tuple, leaf_paths(d)))
    pool = [c for c in cases if ok(c)]
    chosen = pool if len(pool) <= nprojects else rng.sample(pool, nprojects)
    libs = []
    for n, c in enumerate(chosen):
        paths = sorted(set(leaf_paths(c["abs"]["def"])) | set(leaf_paths(c["abs"]["loc"])))
        bins = []
        for bi, p in enumerate(paths):
            body = "\n".join("    let _ = td_string!(Locale::%s, %s);" % (l, ".".join(p)) for l in ("en", "fr", "de"))
            bins.append({"name": "b%02d" % bi, "body": body, "expect": "?", "path": list(p)})
        libs.append({"name": "c07p%d" % n, "cfg": c["cfg"], "files": c["files"], "bins": bins})
    res = probe.negative_bins(run, libs, tag="_c07")
    trace, cases_abs = [], []
    for n, lib in enumerate(libs):
        r = res[lib["name"]]
        cases_abs.append({"id": n + 1, "abs": chosen[n]["abs"]})
        if not r["lib_built"]:
            # a project the parser accepts (possibly with diagnostics) must compile
            from_l1_error = False
            run.violation("l2-lib;" + _key(chosen[n], {"tags": ["lib"]}), "a project the parser accepts does not compile", {"log": r["log"]})
            continue
        for b in lib["bins"]:
            trace.append({"ev": "Compile", "case": n + 1, "path": b["path"], "got": r["bins"][b["name"]]})
    trace.append({"ev": "End"})
    wd = os.path.join(run.workdir, "l2")
    os.makedirs(wd, exist_ok=True)
    tpath, cpath = os.path.join(wd, "trace.ndjson"), os.path.join(wd, "cases.ndjson")
    vp.write_ndjson(tpath, trace)
    vp.write_ndjson(cpath, cases_abs)
    summary, rejects, _ = vp.trace_validate("Trace_Keys", "Trace_Keys.cfg", wd, tpath, cpath, env={"SUPPRESS": "0"})
    if summary["consumed"] != summary["events"]:
        raise vp.ToolError("trace spec consumed %s of %s events" % (summary["consumed"], summary["events"]))
    run.traces += len(libs)
    run.events += summary["events"]
    for rj in rejects:
        ev = trace[rj["l"] - 1]
        run.violation("l2;%s;path=%s" % (_key(chosen[ev["case"] - 1], {"tags": sorted(rj["tags"])}), ".".join(ev["path"])),
                      "reachability: %s" % sorted(rj["tags"]), {"event": ev, "case": chosen[ev["case"] - 1]["abs"]})
    return len(trace) - 1


def check(run):
    cfg = "MC_Keys_quick.cfg" if run.tier == "quick" else "MC_Keys_thorough.cfg"
    cases, res = loadfam.gen_cases(run, "MC_Keys", cfg)
    if len(cases) < 10:
        raise vp.ToolError("MC_Keys produced too few cases")
    run.samples = [{"default_tree": c["abs"]["def"], "locale_tree": c["abs"]["loc"]} for c in cases[len(cases) // 2: len(cases) // 2 + 2]]
    # default build and the suppress_key_warnings build
    loadfam.replay_load(run, cases, "Trace_Keys", "Trace_Keys.cfg", key_of=_key, tag="_default",
                        trace_env={"SUPPRESS": "0"})
    loadfam.replay_load(run, cases, "Trace_Keys", "Trace_Keys.cfg", build_features=("json", "suppress"),
                        variant="json-suppress", key_of=lambda c, r: "suppress;" + _key(c, r), tag="_suppress",
                        trace_env={"SUPPRESS": "1"})
    # the code generator must show exactly the parser's warnings (one `#[deprecated(note = ..)]` item each, with the same text)
    import os
    loadfam.replay_load(run, cases, "Trace_Keys", "Trace_Keys.cfg", package="drv_codegen", key_of=lambda c, r: "codegen;" + _key(c, r), tag="_codegen",
                        per_case_timeout=60, trace_env={"SUPPRESS": "0", "LOADTRACE": os.path.join(run.workdir, "load_default", "trace.ndjson")})
    import random as _r
    sample = cases if len(cases) <= 800 else _r.Random(run.seed).sample(cases, 800)
    loadfam.replay_load(run, loadfam.namespaced(sample), "Trace_Keys", "Trace_Keys.cfg", key_of=lambda c, r: "namespaced;" + _key(c, r), tag="_ns",
                        trace_env={"SUPPRESS": "0", "NS": "n1"})
    # only projects that load (no group / value clash) can be compiled
    run.notes["l2_compile_events"] = run_l2(run, [c for c in cases if _loads(c)], 6 if run.tier == "quick" else 40)
    run.exhaustive = True
    run.assumptions = ["L2: for a seeded sample of projects with surplus keys one small binary per candidate key path is built with --keep-going: every leaf of the default tree must be "
                       "reachable for every locale, every path that only exists in another locale must not compile",
                       "key universe {k1,k2,x{u},g{s1,s2,y,h{t,z}}}; every per-locale tree over it (bounded per tier) against 4 default trees",
                       "each project has the same tree in a locale without inherits (fr) and one with `inherits` (de)",
                       "L1: Warnings and BuildersKeys of parse_locales(); code generator: the notes of the deprecated items it emits are the parser's warning texts, as a multiset"]
    return run.finish("one project per (default tree, locale tree); non-trivial when the trees differ",
                      {"distinct_nontrivial": sum(1 for c in cases if c["abs"]["def"] != c["abs"]["loc"])})


def replay(run, path):
    rp = json.load(open(path))["replay"]
    sup = "1" if rp.get("key", "").startswith("suppress") else "0"
    loadfam.replay_load(run, [rp["case"]], "Trace_Keys", "Trace_Keys.cfg", keep_dirs=True, trace_env={"SUPPRESS": sup})
    return run.finish("replay of one recorded case")
