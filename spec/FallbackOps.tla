---------------------------- MODULE FallbackOps ----------------------------
(* C03, the declarative rule: which locale's value is used for a key.        *)
(* Locales are opaque values; `inh` maps a locale to its inherits target or  *)
(* None; `pres` maps a locale to "def" | "null" | "abs" for one key.         *)
EXTENDS Common

P3 == {"def", "null", "abs"}            \* defined / explicit null / absent

Defined(l, pres, def) == l = def \/ pres[l] = "def"

RECURSIVE Walk(_, _, _, _, _)
Walk(l, inh, pres, seen, def) ==
    IF Defined(l, pres, def) THEN l
    ELSE LET nxt == IF inh[l] = None THEN def ELSE inh[l] IN
         IF nxt \in seen \cup {l} THEN def          \* the chain loops
         ELSE Walk(nxt, inh, pres, seen \cup {l}, def)

\* the locale whose value locale l shows for the key
Source(l, inh, pres, def) == IF l = def THEN def ELSE Walk(l, inh, pres, {}, def)
=============================================================================
