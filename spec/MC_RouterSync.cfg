CONSTANTS
  Locales = {"en", "fr"}
  Default = "en"
  None = "none"
  MaxUser = 3
  UserRaces = FALSE
SPECIFICATION Spec
INVARIANTS TypeOK
PROPERTY Settles
CHECK_DEADLOCK FALSE
