------------------------------ MODULE MC_Ranges ------------------------------
EXTENDS Ranges, RangesCases, Json

CONSTANTS AnchorsUsed,   \* anchors that may appear as bounds
          MaxAlts,       \* alternatives per branch (1 or 2)
          TwoBranch,     \* BOOLEAN: also declarations with two normal branches
          EmitTypes      \* types for which cases are emitted

Sp1 == SpecsOver(AnchorsUsed)
\* second alternatives / second branches are drawn from a smaller set to keep the space finite and useful
Sp2 == { Exact(a) : a \in AnchorsUsed } \cup { Excl(2, 5), Incl(3, 4), Excl(0, 3), Excl(4, 0) }

Branch1 == { <<s>> : s \in Sp1 } \cup (IF MaxAlts >= 2 THEN { <<s, t>> : s \in Sp2, t \in Sp2 } ELSE {})
Normals == { << >> } \cup { <<Br(a, 1)>> : a \in Branch1 }
           \cup (IF TwoBranch THEN { <<Br(<<s>>, 1), Br(<<t>>, 2)>> : s \in Sp2, t \in Sp2 } ELSE {})

MCDecls == { WithFallback(nm, fb) : nm \in Normals, fb \in FbVariants } \ { << >> }

Spellings == { [syntax |-> sx, alts |-> al, num |-> nm, ws |-> FALSE] : sx \in {"seq", "obj"}, al \in {"pipe", "list"}, nm \in BOOLEAN }
             \cup { [syntax |-> "seq", alts |-> "pipe", num |-> FALSE, ws |-> TRUE] }
\* a spelling is only distinct when the declaration has what it varies
UsefulSp(bs, sp) ==
    /\ (sp.alts = "list" => \E j \in DOMAIN bs : Len(bs[j].alts) > 1)
    /\ (sp.num => \E j \in DOMAIN bs : \E k \in DOMAIN bs[j].alts : bs[j].alts[k].f = "exact")
    \* a fallback form inside a list of alternatives is not flattened by the implementation; keep it to the pipe form
    /\ (sp.alts = "list" => \A j \in DOMAIN bs : Len(bs[j].alts) > 1 => \A k \in DOMAIN bs[j].alts : ~IsFallbackSpec(bs[j].alts[k]))

EmitCases ==
    (n = 1 /\ i = 1 /\ result = -1) =>
        \A ty \in EmitTypes : \A sp \in Spellings :
            UsefulSp(branches, sp) =>
                /\ PrintT(<<"CASE", ToJson(CaseOf(branches, ty, TRUE, sp))>>)
                /\ (ty = "i32" /\ sp.syntax = "seq" => PrintT(<<"CASE", ToJson(CaseOf(branches, ty, FALSE, sp))>>))

MCSpec == Init /\ [][Next]_vars /\ WF_vars(Next)
=============================================================================
