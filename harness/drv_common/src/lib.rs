//! Shared pieces of the conformance drivers: the symbol table (one owner of the
//! abstract-symbol <-> concrete-character mapping, `spec/lexemes.json`), the event writer and
//! the *structural* projection of the parser crate's public result types into the
//! vocabulary of the TLA+ specification.  Nothing in here knows an expected value.

use std::collections::{BTreeMap, HashMap};
use std::io::Write;

use leptos_i18n_parser::parse_locales::locale::{
    BuildersKeys, BuildersKeysInner, InterpolOrLit, LiteralType, Locale, LocaleValue,
    RangeOrPlural,
};
use leptos_i18n_parser::parse_locales::parsed_value::{Literal, ParsedValue};
use leptos_i18n_parser::parse_locales::plurals::{PluralForm, PluralRuleType, Plurals};
use leptos_i18n_parser::parse_locales::ranges::{Range, Ranges, UntypedRangesInner};
use leptos_i18n_parser::parse_locales::warning::Warning;
use leptos_i18n_parser::utils::formatter::{
    CurrencyWidth, DateLength, Formatter, GroupingStrategy, ListStyle, ListType, TimeLength,
};
use leptos_i18n_parser::utils::KeyPath;
use serde_json::{json, Value};

pub struct Syms {
    to_char: HashMap<String, String>,
    to_sym: HashMap<char, String>,
}

impl Syms {
    pub fn load() -> Self {
        let path = std::env::var("VERIF_LEX").unwrap_or_else(|_| "/verif/spec/lexemes.json".into());
        let txt = std::fs::read_to_string(&path).expect("lexemes.json");
        let map: BTreeMap<String, String> = serde_json::from_str(&txt).expect("lexemes.json parse");
        let mut to_char = HashMap::new();
        let mut to_sym = HashMap::new();
        for (k, v) in map {
            let mut it = v.chars();
            let c = it.next().expect("empty lexeme");
            assert!(it.next().is_none(), "lexeme must be one char");
            to_sym.insert(c, k.clone());
            to_char.insert(k, v);
        }
        Syms { to_char, to_sym }
    }

    /// concrete text -> array of symbols (unknown characters become "U+XXXX")
    pub fn syms(&self, s: &str) -> Value {
        Value::Array(
            s.chars()
                .map(|c| match self.to_sym.get(&c) {
                    Some(s) => Value::String(s.clone()),
                    None => Value::String(format!("U+{:04X}", c as u32)),
                })
                .collect(),
        )
    }

    /// array of symbols -> concrete text
    pub fn text(&self, v: &Value) -> String {
        let mut out = String::new();
        if let Some(arr) = v.as_array() {
            for s in arr {
                let s = s.as_str().unwrap_or("");
                match self.to_char.get(s) {
                    Some(c) => out.push_str(c),
                    None => {
                        if let Some(hex) = s.strip_prefix("U+") {
                            if let Some(c) = u32::from_str_radix(hex, 16).ok().and_then(char::from_u32) {
                                out.push(c);
                            }
                        }
                    }
                }
            }
        }
        out
    }
}

pub struct Out {
    w: std::io::BufWriter<std::fs::File>,
}

impl Out {
    pub fn create(path: &str, append: bool) -> Self {
        let f = std::fs::OpenOptions::new()
            .create(true)
            .write(true)
            .append(append)
            .truncate(!append)
            .open(path)
            .expect("open out");
        Out { w: std::io::BufWriter::new(f) }
    }
    pub fn emit(&mut self, v: &Value) {
        serde_json::to_writer(&mut self.w, v).expect("write");
        self.w.write_all(b"\n").expect("write");
        self.w.flush().expect("flush");
    }
}

/// Installs a silent panic hook and returns a closure runner that maps a panic to its message.
pub fn run_caught<T>(f: impl FnOnce() -> T + std::panic::UnwindSafe) -> Result<T, String> {
    match std::panic::catch_unwind(f) {
        Ok(v) => Ok(v),
        Err(e) => {
            let msg = if let Some(s) = e.downcast_ref::<&str>() {
                s.to_string()
            } else if let Some(s) = e.downcast_ref::<String>() {
                s.clone()
            } else {
                "<non-string panic>".to_string()
            };
            Err(msg)
        }
    }
}

pub fn silence_panics() {
    std::panic::set_hook(Box::new(|_| {}));
}

// ------------------------------------------------------------------------------------------
// projection
// ------------------------------------------------------------------------------------------

pub fn lit_type(t: LiteralType) -> &'static str {
    match t {
        LiteralType::String => "String",
        LiteralType::Bool => "Bool",
        LiteralType::Signed => "Signed",
        LiteralType::Unsigned => "Unsigned",
        LiteralType::Float => "Float",
    }
}

pub fn formatter(f: &Formatter) -> Value {
    fn dl(d: &DateLength) -> &'static str {
        match d {
            DateLength::Full => "full",
            DateLength::Long => "long",
            DateLength::Medium => "medium",
            DateLength::Short => "short",
        }
    }
    fn tl(d: &TimeLength) -> &'static str {
        match d {
            TimeLength::Full => "full",
            TimeLength::Long => "long",
            TimeLength::Medium => "medium",
            TimeLength::Short => "short",
        }
    }
    match f {
        Formatter::None => json!({"name": "none", "args": []}),
        Formatter::Number(g) => json!({"name": "number", "args": [match g {
            GroupingStrategy::Auto => "auto",
            GroupingStrategy::Never => "never",
            GroupingStrategy::Always => "always",
            GroupingStrategy::Min2 => "min2",
        }]}),
        Formatter::Date(d) => json!({"name": "date", "args": [dl(d)]}),
        Formatter::Time(t) => json!({"name": "time", "args": [tl(t)]}),
        Formatter::DateTime(d, t) => json!({"name": "datetime", "args": [dl(d), tl(t)]}),
        Formatter::List(t, s) => json!({"name": "list", "args": [match t {
            ListType::And => "and",
            ListType::Or => "or",
            ListType::Unit => "unit",
        }, match s {
            ListStyle::Wide => "wide",
            ListStyle::Short => "short",
            ListStyle::Narrow => "narrow",
        }]}),
        Formatter::Currency(w, c) => json!({"name": "currency", "args": [match w {
            CurrencyWidth::Short => "short",
            CurrencyWidth::Narrow => "narrow",
        }, c.0.to_string()]}),
    }
}

pub fn form_name(f: PluralForm) -> &'static str {
    match f {
        PluralForm::Zero => "zero",
        PluralForm::One => "one",
        PluralForm::Two => "two",
        PluralForm::Few => "few",
        PluralForm::Many => "many",
        PluralForm::Other => "other",
    }
}

pub fn rule_type(r: PluralRuleType) -> &'static str {
    match r {
        PluralRuleType::Cardinal => "cardinal",
        PluralRuleType::Ordinal => "ordinal",
    }
}

/// Variable / component names as the specification writes them: `Str` of their symbols, i.e. ASCII characters as they are and
/// every other character by the NAME of its symbol ("ié" -> "iE1").
fn strip_prefix_name(name: &str, prefix: &str) -> String {
    static NON_ASCII: std::sync::OnceLock<HashMap<char, String>> = std::sync::OnceLock::new();
    let table = NON_ASCII.get_or_init(|| {
        let path = std::env::var("VERIF_LEX").unwrap_or_else(|_| "/verif/spec/lexemes.json".into());
        let map: BTreeMap<String, String> = serde_json::from_str(&std::fs::read_to_string(&path).expect("lexemes.json")).expect("lexemes.json parse");
        map.into_iter().filter_map(|(k, v)| v.chars().next().filter(|c| !c.is_ascii()).map(|c| (c, k))).collect()
    });
    name.strip_prefix(prefix).unwrap_or(name).chars().map(|c| table.get(&c).cloned().unwrap_or_else(|| c.to_string())).collect()
}

/// One piece of a canonical value: text pieces are merged, blocs flattened.
/// A text piece carries the literal text (`s`) and what the string table holds at the
/// literal's index (`tab`), both as symbol arrays; a literal whose index is outside the table
/// gets `tab = ["OOB"]`.
const MAX_COMP_DEPTH: usize = 40;
thread_local! { static COMP_DEPTH: std::cell::Cell<usize> = const { std::cell::Cell::new(0) }; }

struct Canon<'a> {
    syms: &'a Syms,
    strings: &'a [std::rc::Rc<str>],
    pieces: Vec<Value>,
    cur_s: String,
    cur_tab: String,
    cur_oob: bool,
    cur_any: bool,
}

impl<'a> Canon<'a> {
    fn new(syms: &'a Syms, strings: &'a [std::rc::Rc<str>]) -> Self {
        Canon { syms, strings, pieces: vec![], cur_s: String::new(), cur_tab: String::new(), cur_oob: false, cur_any: false }
    }
    fn flush(&mut self) {
        if self.cur_any && !(self.cur_s.is_empty() && self.cur_tab.is_empty() && !self.cur_oob) {
            let tab = if self.cur_oob { json!(["OOB"]) } else { self.syms.syms(&self.cur_tab) };
            self.pieces.push(json!({"k": "text", "s": self.syms.syms(&self.cur_s), "tab": tab}));
        }
        self.cur_s.clear();
        self.cur_tab.clear();
        self.cur_oob = false;
        self.cur_any = false;
    }
    fn push_lit(&mut self, lit: &Literal) {
        self.cur_any = true;
        match lit {
            Literal::String(s, idx) => {
                self.cur_s.push_str(s);
                if s.is_empty() && *idx == usize::MAX {
                    // the default empty literal is never indexed
                } else {
                    match self.strings.get(*idx) {
                        Some(t) => self.cur_tab.push_str(t),
                        None => self.cur_oob = true,
                    }
                }
            }
            other => {
                let t = other.to_string();
                self.cur_s.push_str(&t);
                self.cur_tab.push_str(&t);
            }
        }
    }
    fn push(&mut self, v: &ParsedValue) {
        match v {
            ParsedValue::Default => {
                self.flush();
                self.pieces.push(json!({"k": "default"}));
            }
            ParsedValue::Literal(lit) => self.push_lit(lit),
            ParsedValue::Bloc(vs) => {
                for v in vs {
                    self.push(v);
                }
            }
            ParsedValue::Variable { key, formatter: f } => {
                self.flush();
                self.pieces.push(json!({"k": "var", "n": strip_prefix_name(&key.name, "var_"), "f": formatter(f)}));
            }
            ParsedValue::Component { key, inner } => {
                self.flush();
                // TLC's JSON reader refuses more than 255 nested levels: below MAX_COMP_DEPTH nested components the
                // projection is cut (no specification compares trees that deep; the robustness families only judge the outcome)
                let depth = COMP_DEPTH.with(|d| d.get());
                let c = if depth >= MAX_COMP_DEPTH {
                    json!([{"k": "cut"}])
                } else {
                    COMP_DEPTH.with(|d| d.set(depth + 1));
                    let c = canon_pieces(self.syms, self.strings, inner);
                    COMP_DEPTH.with(|d| d.set(depth));
                    c
                };
                self.pieces.push(json!({"k": "comp", "n": strip_prefix_name(&key.name, "comp_"), "c": c}));
            }
            ParsedValue::ForeignKey(fk) => {
                self.flush();
                match fk.try_borrow() {
                    Ok(fk) => match &*fk {
                        leptos_i18n_parser::parse_locales::parsed_value::ForeignKey::Set(inner) => {
                            self.push(inner);
                        }
                        leptos_i18n_parser::parse_locales::parsed_value::ForeignKey::NotSet(path, args) => {
                            let mut a = serde_json::Map::new();
                            for (k, v) in args {
                                a.insert(strip_prefix_name(k, "var_"), tree(self.syms, self.strings, v));
                            }
                            self.pieces.push(json!({"k": "fk", "path": key_path(path), "args": a}));
                        }
                    },
                    Err(_) => self.pieces.push(json!({"k": "fk_borrowed"})),
                }
            }
            ParsedValue::Ranges(r) => {
                self.flush();
                self.pieces.push(ranges(self.syms, self.strings, r));
            }
            ParsedValue::Plurals(p) => {
                self.flush();
                self.pieces.push(plurals(self.syms, self.strings, p));
            }
            ParsedValue::Subkeys(_) => {
                self.flush();
                self.pieces.push(json!({"k": "subkeys"}));
            }
        }
    }
}

fn canon_pieces(syms: &Syms, strings: &[std::rc::Rc<str>], v: &ParsedValue) -> Value {
    let mut c = Canon::new(syms, strings);
    c.push(v);
    c.flush();
    Value::Array(c.pieces)
}

/// Canonical tree of a value: `{"lit": <type or "none">, "c": [pieces]}`.
pub fn tree(syms: &Syms, strings: &[std::rc::Rc<str>], v: &ParsedValue) -> Value {
    let lit = match v {
        ParsedValue::Literal(l) => lit_type(l.get_type()),
        _ => "none",
    };
    json!({"lit": lit, "c": canon_pieces(syms, strings, v)})
}

fn num<T: std::fmt::Display>(v: &T) -> Value {
    Value::String(v.to_string())
}

fn range<T: std::fmt::Display>(r: &Range<T>) -> Value {
    match r {
        Range::Exact(v) => json!({"t": "exact", "v": num(v)}),
        Range::Bounds { start, end } => {
            let lo = match start {
                Some(s) => num(s),
                None => json!("none"),
            };
            let (hi, incl) = match end {
                std::ops::Bound::Included(e) => (num(e), true),
                std::ops::Bound::Excluded(e) => (num(e), false),
                std::ops::Bound::Unbounded => (json!("none"), false),
            };
            json!({"t": "bounds", "lo": lo, "hi": hi, "incl": incl})
        }
        Range::Multiple(rs) => json!({"t": "multi", "alts": rs.iter().map(range).collect::<Vec<_>>()}),
        Range::Fallback => json!({"t": "fallback"}),
    }
}

pub fn ranges(syms: &Syms, strings: &[std::rc::Rc<str>], r: &Ranges) -> Value {
    fn inner<T: std::fmt::Display>(syms: &Syms, strings: &[std::rc::Rc<str>], v: &[(Range<T>, ParsedValue)]) -> (Value, Value) {
        (
            Value::Array(v.iter().map(|(_, v)| canon_pieces(syms, strings, v)).collect()),
            Value::Array(v.iter().map(|(r, _)| range(r)).collect()),
        )
    }
    let (b, rs) = match &r.inner {
        UntypedRangesInner::I8(v) => inner(syms, strings, v),
        UntypedRangesInner::I16(v) => inner(syms, strings, v),
        UntypedRangesInner::I32(v) => inner(syms, strings, v),
        UntypedRangesInner::I64(v) => inner(syms, strings, v),
        UntypedRangesInner::U8(v) => inner(syms, strings, v),
        UntypedRangesInner::U16(v) => inner(syms, strings, v),
        UntypedRangesInner::U32(v) => inner(syms, strings, v),
        UntypedRangesInner::U64(v) => inner(syms, strings, v),
        UntypedRangesInner::F32(v) => inner(syms, strings, v),
        UntypedRangesInner::F64(v) => inner(syms, strings, v),
    };
    json!({"k": "ranges", "ty": r.get_type().to_string(), "ck": strip_prefix_name(&r.count_key.name, "var_"), "b": b, "rs": rs})
}

pub fn plurals(syms: &Syms, strings: &[std::rc::Rc<str>], p: &Plurals) -> Value {
    let mut forms = serde_json::Map::new();
    for (f, v) in &p.forms {
        forms.insert(form_name(*f).to_string(), canon_pieces(syms, strings, v));
    }
    forms.insert("other".to_string(), canon_pieces(syms, strings, &p.other));
    json!({"k": "plurals", "rt": rule_type(p.rule_type), "ck": strip_prefix_name(&p.count_key.name, "var_"), "forms": forms})
}

pub fn key_path(p: &KeyPath) -> Value {
    json!({
        "ns": p.namespace.as_ref().map(|k| k.name.to_string()).unwrap_or_else(|| "none".to_string()),
        "path": p.path.iter().map(|k| k.name.to_string()).collect::<Vec<_>>(),
    })
}

pub fn warning(w: &Warning) -> Value {
    match w {
        Warning::MissingKey { locale, key_path: p } => json!({"kind": "missing", "locale": locale.name.to_string(), "at": key_path(p)}),
        Warning::SurplusKey { locale, key_path: p } => json!({"kind": "surplus", "locale": locale.name.to_string(), "at": key_path(p)}),
        Warning::UnusedForm { locale, key_path: p, form, rule_type: rt } => {
            json!({"kind": "unused", "locale": locale.name.to_string(), "at": key_path(p), "form": form_name(*form), "rt": rule_type(*rt)})
        }
        Warning::NonUnicodePath { locale, .. } => json!({"kind": "nonunicode", "locale": locale.name.to_string()}),
    }
}

/// Projection of one `BuildersKeysInner` level.
/// `locales[i]` is the i-th locale's (sub)locale at this level, `tables[i]` its top-level string table.
pub fn keys_level(syms: &Syms, inner: &BuildersKeysInner, locales: &[Locale], tables: &[&[std::rc::Rc<str>]], top_names: &[String]) -> Value {
    let mut out = serde_json::Map::new();
    for (key, lv) in &inner.0 {
        let v = match lv {
            LocaleValue::Value { value, defaults } => {
                let (kind, vars, comps) = match value {
                    InterpolOrLit::Lit(t) => (lit_type(*t), json!({}), json!([])),
                    InterpolOrLit::Interpol(ik) => {
                        let mut vars = serde_json::Map::new();
                        for (k, info) in ik.iter_vars() {
                            let fmts: Vec<Value> = info.formatters.iter().map(formatter).collect();
                            let count = match info.range_count {
                                None => "none".to_string(),
                                Some(RangeOrPlural::Plural) => "plural".to_string(),
                                Some(RangeOrPlural::Range(t)) => t.to_string(),
                            };
                            vars.insert(strip_prefix_name(&k.name, "var_"), json!({"fmts": fmts, "count": count}));
                        }
                        let comps: Vec<Value> = ik.iter_comps().map(|k| Value::String(strip_prefix_name(&k.name, "comp_"))).collect();
                        ("interpol", Value::Object(vars), Value::Array(comps))
                    }
                };
                let mut src = serde_json::Map::new();
                let mut vals = serde_json::Map::new();
                for (i, name) in top_names.iter().enumerate() {
                    let k = leptos_i18n_parser::utils::Key::new(name).expect("locale key");
                    src.insert(name.clone(), Value::String(defaults.default_of(&k).name.to_string()));
                    let t = match locales.get(i).and_then(|l| l.keys.get(key)) {
                        Some(pv) => tree(syms, tables[i], pv),
                        None => json!({"lit": "none", "c": [{"k": "absent"}]}),
                    };
                    vals.insert(name.clone(), t);
                }
                let mut computed = serde_json::Map::new();
                for (to, froms) in defaults.compute() {
                    computed.insert(to.name.to_string(), Value::Array(froms.iter().map(|k| Value::String(k.name.to_string())).collect()));
                }
                json!({"t": "value", "kind": kind, "vars": vars, "comps": comps, "src": src, "computed": computed, "vals": vals})
            }
            LocaleValue::Subkeys { locales: sub, keys } => {
                let counts: Vec<Value> = sub.iter().map(|l| json!(l.top_locale_string_count)).collect();
                let names: Vec<Value> = sub.iter().map(|l| json!(l.top_locale_name.name.to_string())).collect();
                json!({"t": "sub", "n": sub.len(), "counts": counts, "tops": names, "keys": keys_level(syms, keys, sub, tables, top_names)})
            }
        };
        out.insert(key.name.to_string(), v);
    }
    Value::Object(out)
}

pub fn namespace_unit(syms: &Syms, ns: Option<&str>, inner: &BuildersKeysInner, locales: &[Locale]) -> Value {
    let tables: Vec<&[std::rc::Rc<str>]> = locales.iter().map(|l| &l.strings[..]).collect();
    let names: Vec<String> = locales.iter().map(|l| l.name.name.to_string()).collect();
    let tabs: Vec<Value> = locales
        .iter()
        .map(|l| {
            json!({
                "locale": l.name.name.to_string(),
                "top": l.top_locale_name.name.to_string(),
                "count": l.top_locale_string_count,
                "strings": l.strings.iter().map(|s| syms.syms(s)).collect::<Vec<_>>(),
            })
        })
        .collect();
    json!({
        "ns": ns.unwrap_or("none"),
        "keys": keys_level(syms, inner, locales, &tables, &names),
        "tables": tabs,
    })
}

pub fn builders_keys(syms: &Syms, bk: &BuildersKeys) -> Value {
    match bk {
        BuildersKeys::NameSpaces { namespaces, keys } => Value::Array(
            namespaces
                .iter()
                .map(|ns| {
                    let inner = keys.get(&ns.key);
                    match inner {
                        Some(inner) => namespace_unit(syms, Some(&ns.key.name), inner, &ns.locales),
                        None => json!({"ns": ns.key.name.to_string(), "keys": "missing", "tables": []}),
                    }
                })
                .collect(),
        ),
        BuildersKeys::Locales { locales, keys } => Value::Array(vec![namespace_unit(syms, None, keys, locales)]),
    }
}

/// `Error` is not an enum we can match exhaustively without coupling to every variant's
/// fields; the class is the variant name taken from the Debug form, the text is Display.
/// the double-quoted segments of an error text (key paths and locale names are printed quoted)
pub fn quoted_segments(text: &str) -> Vec<String> {
    // whatever a message puts between a pair of ", ` or ' (the wording and the quoting style of messages are not part of any property)
    let mut out = vec![];
    for q in ['"', '`', '\''] {
        let mut cur: Option<String> = None;
        for c in text.chars() {
            if c == q {
                match cur.take() {
                    Some(s) => out.push(s),
                    None => cur = Some(String::new()),
                }
            } else if let Some(s) = cur.as_mut() {
                s.push(c);
            }
        }
    }
    out
}

pub fn error_class<E: std::fmt::Debug>(e: &E) -> String {
    let d = format!("{:?}", e);
    d.chars().take_while(|c| c.is_alphanumeric() || *c == '_').collect()
}


/// "the project was edited": when the row has `pre_copy_from`, the project directory `dir` is emptied and the content of that
/// other directory copied into it before the load - the SAME path is then loaded again, in this process, with other content
pub fn apply_pre_copy(c: &serde_json::Value) {
    fn copy_dir(from: &std::path::Path, to: &std::path::Path) {
        std::fs::create_dir_all(to).expect("create dir");
        for e in std::fs::read_dir(from).expect("read dir") {
            let e = e.expect("entry");
            let (src, dst) = (e.path(), to.join(e.file_name()));
            if src.is_dir() {
                copy_dir(&src, &dst);
            } else {
                std::fs::copy(&src, &dst).expect("copy");
            }
        }
    }
    if let (Some(from), Some(dir)) = (c["pre_copy_from"].as_str(), c["dir"].as_str()) {
        let _ = std::fs::remove_dir_all(dir);
        copy_dir(std::path::Path::new(from), std::path::Path::new(dir));
    }
}
