----------------------------- MODULE MC_Config -----------------------------
EXTENDS Config, Json

CONSTANTS MaxLen, TextVariants

Names == {"en", "fr", "de"}
Lists(n) == UNION { [1..k -> Names] : k \in 0..n }

NsChoices  == { Absent, Some(<<"a">>), Some(<<"a", "b">>), Some(<<"a", "a">>) }
InhChoices == { Absent, Some(<< <<"fr", "en">> >>), Some(<< <<"fr", "de">> >>), Some(<< <<"en", "fr">> >>), Some(<< <<"xx", "en">> >>), Some(<< <<"fr", "xx">> >>), Some(<< <<"fr", "fr">> >>), Some(<< <<"fr", "de">>, <<"de", "fr">> >>) }

\* textual variants: (section present, locales-dir, unknown field, text before, text after)
Variant(i) ==
    CASE i = 1 -> [section |-> TRUE,  dir |-> None, unknown |-> FALSE, pre |-> "plain", post |-> "none", hdr |-> "plain"]
      [] i = 2 -> [section |-> TRUE,  dir |-> "tr", unknown |-> TRUE,  pre |-> "decoy", post |-> "deps", hdr |-> "plain"]
      [] i = 3 -> [section |-> TRUE,  dir |-> "tr", unknown |-> FALSE, pre |-> "plain", post |-> "deps", hdr |-> "plain"]
      [] i = 4 -> [section |-> TRUE,  dir |-> None, unknown |-> TRUE,  pre |-> "decoy", post |-> "none", hdr |-> "plain"]
      [] i = 5 -> [section |-> FALSE, dir |-> None, unknown |-> FALSE, pre |-> "decoy", post |-> "none", hdr |-> "plain"]
      \* locales-dir spellings: a hidden directory, a nested one, one above the crate (the crate then lives in a sub-directory
      \* of the case), a leading "./"
      [] i = 6 -> [section |-> TRUE,  dir |-> ".i18n", unknown |-> FALSE, pre |-> "plain", post |-> "none", hdr |-> "plain"]
      [] i = 7 -> [section |-> TRUE,  dir |-> "a/b", unknown |-> FALSE, pre |-> "plain", post |-> "deps", hdr |-> "plain"]
      [] i = 8 -> [section |-> TRUE,  dir |-> "../up", unknown |-> FALSE, pre |-> "plain", post |-> "none", hdr |-> "plain"]
      [] i = 9 -> [section |-> TRUE,  dir |-> "./tr", unknown |-> FALSE, pre |-> "decoy", post |-> "none", hdr |-> "plain"]
      \* the section header is TOML, not a marker: a commented-out older copy of the section above the real one, a string that
      \* mentions the header, and the equivalent TOML spellings of the same table (blanks inside the brackets, a quoted key,
      \* an inline table under [package.metadata], `inherits` written as a sub-table) all denote the same configuration;
      \* a header that only occurs in a comment is no section at all
      [] i = 10 -> [section |-> TRUE,  dir |-> None, unknown |-> FALSE, pre |-> "commented", post |-> "none", hdr |-> "plain"]
      [] i = 11 -> [section |-> TRUE,  dir |-> "tr", unknown |-> TRUE,  pre |-> "mention", post |-> "deps", hdr |-> "plain"]
      [] i = 12 -> [section |-> TRUE,  dir |-> None, unknown |-> FALSE, pre |-> "plain", post |-> "deps", hdr |-> "spaces"]
      [] i = 13 -> [section |-> TRUE,  dir |-> None, unknown |-> TRUE,  pre |-> "decoy", post |-> "none", hdr |-> "quoted"]
      [] i = 14 -> [section |-> TRUE,  dir |-> "tr", unknown |-> FALSE, pre |-> "plain", post |-> "deps", hdr |-> "inline"]
      [] i = 15 -> [section |-> TRUE,  dir |-> None, unknown |-> FALSE, pre |-> "plain", post |-> "deps", hdr |-> "subtable"]
      [] i = 16 -> [section |-> FALSE, dir |-> None, unknown |-> FALSE, pre |-> "commented", post |-> "none", hdr |-> "plain"]

MCRawConfigs ==
    { [section |-> Variant(v).section, default |-> d, locales |-> ls, namespaces |-> ns, inherits |-> inh,
       dir |-> Variant(v).dir, unknown |-> Variant(v).unknown, pre |-> Variant(v).pre, post |-> Variant(v).post, hdr |-> Variant(v).hdr] :
        d \in {None, "en", "fr"}, ls \in {Absent} \cup {Some(x) : x \in Lists(MaxLen)}, ns \in NsChoices, inh \in InhChoices,
        v \in TextVariants }

\* ---- cases -------------------------------------------------------------------
KeyNode(name) == MapNode(<< <<"k", StrNode(<<"v">>)>> >>)
Garbage == [t |-> "raw", v |-> "{{{ not a translation file"]

Fields(rc) ==
    (IF rc.unknown THEN << <<"some-unknown-field", [str |-> "x"]>> >> ELSE <<>>)
    \o (IF rc.default = None THEN <<>> ELSE << <<"default", [str |-> rc.default]>> >>)
    \o (IF ~rc.locales.p THEN <<>> ELSE << <<"locales", [list |-> rc.locales.v]>> >>)
    \o (IF ~rc.namespaces.p THEN <<>> ELSE << <<"namespaces", [list |-> rc.namespaces.v]>> >>)
    \o (IF rc.dir = None THEN <<>> ELSE << <<"locales-dir", [str |-> rc.dir]>> >>)
    \o (IF ~rc.inherits.p THEN <<>> ELSE << <<"inherits", [pairs |-> rc.inherits.v]>> >>)

\* files: everything FilesToRead names, plus decoys that must not be read; `drop` removes one
CaseOf(rc, drop) ==
    LET n == Normalise(rc)
        want == IF n.ok THEN SortedSeq(FilesToRead(n.v)) ELSE <<>>
        kept == IF drop /\ want # <<>> THEN SubSeq(want, 1, Len(want) - 1) ELSE want
        decoys == IF n.ok THEN (IF ~n.v.namespaces.p THEN << "zz" >> ELSE << "zz/a", "en/zz" >>) ELSE <<>> IN
    [family |-> "config",
     abs |-> [raw |-> rc, drop |-> drop],
     cfg |-> [raw |-> TRUE, section |-> rc.section, fields |-> Fields(rc), pre |-> rc.pre, post |-> rc.post, hdr |-> rc.hdr],
     dir |-> IF rc.dir = None THEN "locales" ELSE rc.dir,
     root |-> IF rc.dir = "../up" THEN "crate" ELSE "",
     files |-> [i \in DOMAIN kept |-> <<kept[i], KeyNode("k")>>] \o [i \in DOMAIN decoys |-> <<decoys[i], Garbage>>]]

EmitCases ==
    pc = "split" =>
        /\ PrintT(<<"CASE", ToJson(CaseOf(raw, FALSE))>>)
        /\ (Normalise(raw).ok => PrintT(<<"CASE", ToJson(CaseOf(raw, TRUE))>>))

MCSpec == Init /\ [][Next]_vars /\ WF_vars(Next)
=============================================================================
