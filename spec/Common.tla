------------------------------- MODULE Common -------------------------------
(* Shared vocabulary of all leptos_i18n specifications.                      *)
(*                                                                           *)
(* Text is a sequence of *symbols*; a symbol is a TLA+ string naming one      *)
(* character (spec/lexemes.json owns the symbol -> character table and is    *)
(* read by the materialiser and by the drivers, never by TLC).  Letters and  *)
(* digits name themselves, so an identifier written as a sequence of letter  *)
(* symbols can be turned into the TLA+ string of the same spelling with Str. *)
(*                                                                           *)
(* File contents are generic trees ("nodes"); the materialiser serialises a  *)
(* node to JSON / JSON5 / YAML without interpreting it.                      *)
EXTENDS Naturals, Sequences, FiniteSets, SequencesExt, FiniteSetsExt, Functions, TLC

Str(syms) == FoldLeft(LAMBDA acc, x : acc \o x, "", syms)

Cat(seqs) == FoldLeft(LAMBDA acc, x : acc \o x, <<>>, seqs)

None == "none"

\* ---- file nodes ----------------------------------------------------------
StrNode(s)  == [t |-> "str", s |-> s]
RawNode(v)  == [t |-> "raw", v |-> v]        \* number / true / false / null lexeme
RawSym(s)   == [t |-> "rawsym", s |-> s]  \* the same, spelled with symbols
SpecialNode(v) == [t |-> "special", v |-> v]   \* "inf" | "neginf" | "nan": spelled as the file format spells it (YAML .inf, JSON5 Infinity)
NullNode    == RawNode("null")
MapNode(e)  == [t |-> "map", e |-> e]        \* e : sequence of <<key string, node>>
SeqNode(e)  == [t |-> "seq", e |-> e]

\* deterministic enumeration of a finite set of strings / sequences
SortedSeq(S) == SetToSortSeq(S, LAMBDA a, b : TRUE)

Max2(a, b) == IF a >= b THEN a ELSE b
Min2(a, b) == IF a <= b THEN a ELSE b

\* multiset of the elements of a sequence, as a function elem -> count
BagOfSeq(s) == [x \in Range(s) |-> Cardinality({i \in DOMAIN s : s[i] = x})]
=============================================================================
