SPECIFICATION MCSpec
INVARIANTS SigIsUnion ErrIffConflict EmitCases
PROPERTY Termination
CHECK_DEADLOCK FALSE
