---------------------------- MODULE Trace_FkPaths ----------------------------
(* Every leaf of the FkPaths project, as the real parser resolved it, equals    *)
(* its denotation: the text with every `$t(path)` replaced by what the key at   *)
(* that path denotes in the same locale.                                        *)
EXTENDS FkPaths, Json, IOUtils

Rec   == ndJsonDeserialize(IOEnv.TRACE)
VARIABLE l

TextTree(s) == [lit |-> "String", c |-> << [k |-> "text", s |-> s, tab |-> s] >>]

RECURSIVE AtPath(_, _)
AtPath(keys, p) == IF Len(p) = 1 THEN (IF p[1] \in DOMAIN keys THEN keys[p[1]] ELSE [t |-> "missing"])
                   ELSE IF p[1] \in DOMAIN keys /\ keys[p[1]].t = "sub" THEN AtPath(keys[p[1]].keys, Tail(p)) ELSE [t |-> "missing"]

Tags(ev) ==
    IF ev.ev = "Crash" THEN {"crash:" \o ev.outcome}
    ELSE IF ev.ev # "Load" THEN {}
    ELSE IF ev.load.outcome # "Ok" THEN {"must-accept-got-" \o ev.load.outcome}
    ELSE LET keys == ev.load.units[1].keys IN
         UNION { UNION { LET e == AtPath(keys, p) IN
                           IF e.t # "value" THEN {"not-a-value:" \o ToString(p)}
                           ELSE IF e.vals[x] = TextTree(Denote(x, Leaves(x)[p])) THEN {} ELSE {"value:" \o x \o ":" \o ToString(p)}
                         : p \in DOMAIN Leaves(x) } : x \in Range(Locs) }

TraceInit == l = 1
TraceNext ==
    /\ l <= Len(Rec)
    /\ l' = l + 1
    /\ LET tags == Tags(Rec[l]) IN
         tags = {} \/ PrintT(<<"REJECT", ToJson([l |-> l, case |-> Rec[l].case, tags |-> tags])>>)
TraceSpec == TraceInit /\ [][TraceNext]_l
Post == PrintT(<<"SUMMARY", ToJson([events |-> Len(Rec), consumed |-> TLCGet("stats").diameter - 1])>>)
=============================================================================
