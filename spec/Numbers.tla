------------------------------- MODULE Numbers -------------------------------
(* Numbers as translation values (C10, also C01 / C06).                        *)
(*                                                                            *)
(* A number is  (-1)^neg * d * 10^e  with d a digit string without leading or  *)
(* trailing zeros.  The *content* of a file is the number; how it is written   *)
(* (plain, with a fraction of zeros, in scientific notation with e / E / an    *)
(* explicit sign of the exponent) and in which of the three file formats is    *)
(* spelling.  What a number shows as is its plain decimal expansion `NCanon`    *)
(* (never an exponent, no trailing zeros, no "+"), whatever the spelling and   *)
(* whatever the reader: that is the statement checked here.  The reader's      *)
(* typing - an integer for spellings without fraction and exponent, a float     *)
(* otherwise - is part of the model because the generated code depends on it;  *)
(* signed / unsigned is the reader's own business (Trace_Fk.SameLit).          *)
(*                                                                            *)
(* Portable numbers: integers written plainly that fit 64 bits, and decimals   *)
(* of at most 15 significant digits inside the range of a double (every such   *)
(* decimal is the shortest spelling of the double nearest to it, so nothing    *)
(* is rounded visibly).  Beyond that lie the numbers no reader can hold; the   *)
(* specification says what has to happen there too (EdgeCases): exact or       *)
(* refused, never silently something else.                                     *)
EXTENDS FkCases, Integers

Dig == <<"0", "1", "2", "3", "4", "5", "6", "7", "8", "9">>
RECURSIVE ToDigits(_)
ToDigits(k) == IF k < 10 THEN <<Dig[k + 1]>> ELSE ToDigits(k \div 10) \o <<Dig[(k % 10) + 1]>>
Zeros(n) == [i \in 1..n |-> "0"]
Abs(x) == IF x < 0 THEN -x ELSE x

NumV(neg, d, e) == [neg |-> neg, d |-> d, e |-> e]
SignOf(n) == IF n.neg THEN <<"DASH">> ELSE <<>>
Plain(d, e) ==
    IF e >= 0 THEN d \o Zeros(e)
    ELSE IF -e < Len(d) THEN SubSeq(d, 1, Len(d) + e) \o <<"DOT">> \o SubSeq(d, Len(d) + e + 1, Len(d))
    ELSE <<"0", "DOT">> \o Zeros(-e - Len(d)) \o d
NCanon(n) == SignOf(n) \o Plain(n.d, n.e)
IsInt(n) == n.e >= 0
IsZero(n) == n.d = <<"0">>

\* scientific notation: d1.d2..dn e x   with x = e + n - 1
Mant(n) == IF Len(n.d) = 1 THEN n.d ELSE <<n.d[1], "DOT">> \o SubSeq(n.d, 2, Len(n.d))
Exp10(n) == n.e + Len(n.d) - 1
ExpSym(x, explicitPlus) == (IF x < 0 THEN <<"DASH">> ELSE IF explicitPlus THEN <<"PLUS">> ELSE <<>>) \o ToDigits(Abs(x))

IntTy(n) == IF n.neg THEN "Signed" ELSE "Unsigned"
\* the spellings of a number that every one of the three formats has: <<name, symbols, literal type>>
Spellings(n) ==
    (IF IsInt(n) /\ Len(n.d) + n.e <= 18 THEN << <<"plain", NCanon(n), IntTy(n)>> >> ELSE <<>>)
    \o (IF ~IsInt(n) THEN << <<"plain", NCanon(n), "Float">>, <<"frac0", NCanon(n) \o <<"0">>, "Float">> >> ELSE <<>>)
    \o (IF IsInt(n) /\ Len(n.d) + n.e <= 15 THEN << <<"point0", NCanon(n) \o <<"DOT", "0">>, "Float">> >> ELSE <<>>)
    \o << <<"sci", SignOf(n) \o Mant(n) \o <<"e">> \o ExpSym(Exp10(n), FALSE), "Float">>,
          <<"sciE", SignOf(n) \o Mant(n) \o <<"E">> \o ExpSym(Exp10(n), TRUE), "Float">> >>

\* ---- the universe ------------------------------------------------------------------------------
D15 == <<"1","2","3","4","5","6","7","8","9","0","1","2","3","4","5">>
DigitStrings == << <<"1">>, <<"5">>, <<"1","5">>, <<"1","0","5">>, <<"3">>, <<"1","2","5">>, D15 >>
Exps == <<-9, -7, -3, -2, -1, 0, 1, 2, 3, 6, 21, 22>>
NumSeq ==
    << NumV(FALSE, <<"0">>, 0) >>
    \o Cat([i \in DOMAIN DigitStrings |-> Cat([j \in DOMAIN Exps |-> << NumV(FALSE, DigitStrings[i], Exps[j]), NumV(TRUE, DigitStrings[i], Exps[j]) >>])])
\* the ends of the representable range, in the one spelling that is exact
I64Max == <<"9","2","2","3","3","7","2","0","3","6","8","5","4","7","7","5","8","0","7">>
I64MinAbs == <<"9","2","2","3","3","7","2","0","3","6","8","5","4","7","7","5","8","0","8">>
U64Max == <<"1","8","4","4","6","7","4","4","0","7","3","7","0","9","5","5","1","6","1","5">>
U64MaxPlus1 == <<"1","8","4","4","6","7","4","4","0","7","3","7","0","9","5","5","1","6","1","6">>
F64MaxD == <<"1","7","9","7","6","9","3","1","3","4","8","6","2","3","1","5","7">>
Extremes ==
    << [sym |-> I64Max, ty |-> "Unsigned", disp |-> I64Max],
       [sym |-> <<"DASH">> \o I64MinAbs, ty |-> "Signed", disp |-> <<"DASH">> \o I64MinAbs],
       \* the largest double and the smallest positive one, by their shortest spellings
       [sym |-> <<"1","DOT">> \o SubSeq(F64MaxD, 2, 17) \o <<"e","3","0","8">>, ty |-> "Float", disp |-> Plain(F64MaxD, 292)],
       [sym |-> <<"5","e","DASH","3","2","4">>, ty |-> "Float", disp |-> Plain(<<"5">>, -324)],
       \* a float zero keeps its sign (IEEE), an exponent on zero changes nothing
       [sym |-> <<"DASH","0","DOT","0">>, ty |-> "Float", disp |-> <<"DASH","0">>],
       [sym |-> <<"0","e","0">>, ty |-> "Float", disp |-> <<"0">>],
       [sym |-> <<"0","DOT","0">>, ty |-> "Float", disp |-> <<"0">>],
       \* below the smallest double: the nearest double is zero
       [sym |-> <<"1","e","DASH","4","0","0">>, ty |-> "Float", disp |-> <<"0">>] >>

LitSeq == Cat([i \in DOMAIN NumSeq |-> LET sp == Spellings(NumSeq[i]) IN
                                       [j \in DOMAIN sp |-> [sym |-> sp[j][2], ty |-> sp[j][3], disp |-> NCanon(NumSeq[i])]]])
          \o Extremes

\* ---- reading a spelling back (what every reader has to compute) ------------------------------------
DigitVal(s) == CHOOSE k \in 0..9 : Dig[k + 1] = s
NatOf(ds) == FoldLeft(LAMBDA acc, x : acc * 10 + DigitVal(x), 0, ds)
PosOf(seq, S) == IF \E k \in DOMAIN seq : seq[k] \in S THEN CHOOSE k \in DOMAIN seq : seq[k] \in S /\ \A m \in 1..(k - 1) : seq[m] \notin S ELSE 0
RECURSIVE StripLead(_), StripTrail(_, _)
StripLead(ds) == IF Len(ds) > 1 /\ ds[1] = "0" THEN StripLead(Tail(ds)) ELSE ds
StripTrail(ds, e) == IF Len(ds) > 1 /\ ds[Len(ds)] = "0" THEN StripTrail(SubSeq(ds, 1, Len(ds) - 1), e + 1) ELSE <<ds, e>>
NDenote(sym) ==
    LET neg == sym[1] = "DASH"
        body == IF neg THEN Tail(sym) ELSE sym
        ep == PosOf(body, {"e", "E"})
        mant == IF ep = 0 THEN body ELSE SubSeq(body, 1, ep - 1)
        xs == IF ep = 0 THEN <<>> ELSE SubSeq(body, ep + 1, Len(body))
        x == IF xs = <<>> THEN 0 ELSE IF xs[1] = "DASH" THEN -NatOf(Tail(xs)) ELSE IF xs[1] = "PLUS" THEN NatOf(Tail(xs)) ELSE NatOf(xs)
        dot == PosOf(mant, {"DOT"})
        ip == IF dot = 0 THEN mant ELSE SubSeq(mant, 1, dot - 1)
        fp == IF dot = 0 THEN <<>> ELSE SubSeq(mant, dot + 1, Len(mant))
        st == StripTrail(StripLead(ip \o fp), x - Len(fp)) IN
    IF st[1] = <<"0">> THEN NumV(neg, <<"0">>, 0) ELSE NumV(neg, st[1], st[2])
\* every spelling of a number denotes that number, and the plain expansion denotes it too (the model's own statements, checked by TLC)
ReadBack == \A i \in DOMAIN NumSeq : /\ NDenote(NCanon(NumSeq[i])) = NumSeq[i]
                                      /\ \A j \in DOMAIN Spellings(NumSeq[i]) : NDenote(Spellings(NumSeq[i])[j][2]) = NumSeq[i]
\* NCanon never shows an exponent, a plus sign, a trailing zero of a fraction or a leading zero of an integer part
CanonShape == \A i \in DOMAIN NumSeq :
    LET c == NCanon(NumSeq[i])
        body == IF NumSeq[i].neg THEN Tail(c) ELSE c IN
    /\ \A k \in DOMAIN c : c[k] \notin {"e", "E", "PLUS"}
    /\ ("DOT" \in Range(body) => body[Len(body)] # "0" /\ body[1] # "DOT" /\ body[Len(body)] # "DOT")
    /\ (Len(body) > 1 /\ body[1] = "0" => body[2] = "DOT")
\* two different numbers never show the same text (so a reader that confuses two of them is seen)
CanonInjective == \A i, j \in DOMAIN NumSeq : NCanon(NumSeq[i]) = NCanon(NumSeq[j]) => i = j

\* ---- projects ------------------------------------------------------------------------------------
KeyId(prefix, i) == Str(<<prefix>> \o ToDigits(i))
\* literal i is key n<i>; r<i> puts it between text and a variable (through a reference), twice
LitKeys(L) ==
    [k \in { KeyId("n", i) : i \in DOMAIN L } \cup { KeyId("r", i) : i \in DOMAIN L } |->
       LET i == CHOOSE i \in DOMAIN L : k \in {KeyId("n", i), KeyId("r", i)} IN
       IF k = KeyId("n", i) THEN LitE(L[i].ty, L[i].sym, L[i].disp)
       ELSE Val(<<T(<<"p">>), Fk(<<"n">> \o ToDigits(i), <<>>), V(X), Fk(<<"n">> \o ToDigits(i), <<>>), T(<<"SP","q">>)>>)]
\* a number handed to a variable of another key as a reference argument (always read by the same reader, whatever the file format)
ArgKeys(L) ==
    [k \in {"tgt"} \cup { KeyId("a", i) : i \in DOMAIN L } |->
       IF k = "tgt" THEN Val(<<T(<<"LSB">>), V(NVar), T(<<"RSB">>)>>)
       ELSE LET i == CHOOSE i \in DOMAIN L : k = KeyId("a", i) IN
            Val(<<Fk(<<"t","g","t">>, <<ArgN(NVar, L[i].sym, L[i].disp, 0, "")>>)>>)]

Chunk(L, a, b) == SubSeq(L, a, Min2(b, Len(L)))
ChunkSize == 60
NChunks == (Len(LitSeq) + ChunkSize - 1) \div ChunkSize
NumProject(keys, extra) ==
    ProjectCase("numbers", [def |-> "en", locs |-> <<"en", "fr">>, inh |-> << >>, vals |-> [l \in {"en", "fr"} |-> keys]],
                [k \in DOMAIN keys |-> k], extra)
PortableCases ==
    [c \in 1..NChunks |-> NumProject(LitKeys(Chunk(LitSeq, (c - 1) * ChunkSize + 1, c * ChunkSize)), "none")]
    \o [c \in 1..NChunks |-> NumProject(ArgKeys(Chunk(LitSeq, (c - 1) * ChunkSize + 1, c * ChunkSize)), "none")]

\* ---- the edge: numbers that a 64-bit integer or a double cannot hold, and an integer spelling of minus zero ---------------
\* exact where some integer type holds the number, refused otherwise - in every format alike
D30 == D15 \o D15
NoLit == LitE("none", <<>>, <<>>)
EdgeSeq ==
    << [cls |-> "num:negzero-int", sym |-> <<"DASH","0">>, want |-> LitE("Signed", <<"DASH","0">>, <<"0">>)],
       [cls |-> "num:u64-high", sym |-> I64MinAbs, want |-> LitE("Unsigned", I64MinAbs, I64MinAbs)],
       [cls |-> "num:u64-high", sym |-> U64Max, want |-> LitE("Unsigned", U64Max, U64Max)],
       [cls |-> "num:beyond-64-bit", sym |-> U64MaxPlus1, want |-> NoLit],
       [cls |-> "num:beyond-64-bit", sym |-> <<"DASH","9","2","2","3","3","7","2","0","3","6","8","5","4","7","7","5","8","0","9">>, want |-> NoLit],
       [cls |-> "num:beyond-64-bit", sym |-> D30, want |-> NoLit],
       [cls |-> "num:float-overflow", sym |-> <<"1","e","4","0","0">>, want |-> NoLit],
       [cls |-> "num:float-overflow", sym |-> <<"DASH","1","e","4","0","0">>, want |-> NoLit] >>
EdgeCase(x) ==
    LET keys == IF x.want = NoLit THEN [n1 |-> LitE("Float", x.sym, x.sym)] ELSE [n1 |-> x.want]
        c == NumProject(keys, IF x.want = NoLit THEN "must-refuse" ELSE "none") IN
    [c EXCEPT !.family = "numbers-edge", !.abs = [c.abs EXCEPT !.extra = IF x.want = NoLit THEN "must-refuse" ELSE "none"] @@ [cls |-> x.cls, tok |-> x.sym]]
EdgeCases == [i \in DOMAIN EdgeSeq |-> EdgeCase(EdgeSeq[i])]

\* ---- numbers where a string usually stands: the value of a range arm, a plural form ---------------------------------------
\* (the same visitor reads them; they show as numbers do, and a reference with a literal count selects among them)
ArmNums == << [sym |-> <<"1","DOT","5","e","3">>, disp |-> <<"1","5","0","0">>],
              [sym |-> <<"DASH","0","DOT","1","0">>, disp |-> <<"DASH","0","DOT","1">>],
              [sym |-> <<"1","E","PLUS","2">>, disp |-> <<"1","0","0">>],
              [sym |-> <<"1","2">>, disp |-> <<"1","2">>],
              [sym |-> <<"t","r","u","e">>, disp |-> <<"t","r","u","e">>] >>
ArmKeys ==
    [rg |-> [k |-> "ranges", ty |-> "i32", ck |-> Cnt,
             b |-> << [alts |-> <<Exact(3)>>, v |-> <<T(ArmNums[1].disp)>>], [alts |-> <<Excl(4, 0)>>, v |-> <<T(ArmNums[2].disp)>>],
                      [alts |-> <<Wild>>, v |-> <<T(ArmNums[3].disp)>>] >>],
     pl |-> [k |-> "plurals", ty |-> "cardinal", ck |-> Cnt, forms |-> [one |-> <<T(ArmNums[4].disp)>>, other |-> <<T(ArmNums[5].disp)>>]],
     ra |-> Val(<<T(<<"a","COLON">>), Fk(<<"r","g">>, <<NumI32(3)>>), T(<<"PIPE">>), Fk(<<"r","g">>, <<NumI32(5)>>), T(<<"PIPE">>), Fk(<<"r","g">>, <<NumI32(2)>>)>>),
     rp |-> Val(<<Fk(<<"p","l">>, <<NumTok(<<"1">>, "1")>>), T(<<"PIPE">>), Fk(<<"p","l">>, <<NumTok(<<"2">>, "2")>>)>>)]
ArmFile ==
    MapNode(<< <<"rg", SeqNode(<<StrNode(TySymX["i32"]),
                                 SeqNode(<<RawSym(ArmNums[1].sym), StrNode(SpecText(Exact(3), "i32"))>>),
                                 SeqNode(<<RawSym(ArmNums[2].sym), StrNode(SpecText(Excl(4, 0), "i32"))>>),
                                 SeqNode(<<RawSym(ArmNums[3].sym), StrNode(SpecText(Wild, "i32"))>>)>>)>>,
               <<"pl_one", RawSym(ArmNums[4].sym)>>, <<"pl_other", RawSym(ArmNums[5].sym)>>,
               <<"ra", StrNode(UnparseX(ArmKeys.ra.v))>>, <<"rp", StrNode(UnparseX(ArmKeys.rp.v))>> >>)
ArmCase == LET c == NumProject(ArmKeys, "none") IN
           [c EXCEPT !.family = "numbers-arms", !.files = [j \in DOMAIN c.files |-> <<c.files[j][1], ArmFile>>]]

\* ---- dialects: spellings that only one of the formats has ------------------------------------------------------------------
\* JSON5 and YAML write numbers in ways JSON cannot: an explicit plus, a bare leading or trailing point, other radixes; YAML also
\* spells booleans with capitals.  The content is still the number: it shows as every other spelling of it does.
HexDig == <<"0","1","2","3","4","5","6","7","8","9","A","B","C","D","E","F">>
RadixVal(ds, r) == FoldLeft(LAMBDA acc, x : acc * r + ((CHOOSE k \in 1..16 : HexDig[k] = x) - 1), 0, ds)
Lit3(sym, ty, disp) == [sym |-> sym, ty |-> ty, disp |-> disp]
HexBody == <<"1","F">>
OctBody == <<"1","7">>
BinBody == <<"1","0","1">>
CommonDialect ==
    << Lit3(<<"PLUS","5">>, "Signed", <<"5">>), Lit3(<<"DOT","5">>, "Float", <<"0","DOT","5">>), Lit3(<<"5","DOT">>, "Float", <<"5">>),
       Lit3(<<"PLUS","DOT","5","e","1">>, "Float", <<"5">>), Lit3(<<"PLUS","1","DOT","5">>, "Float", <<"1","DOT","5">>),
       Lit3(<<"0","x">> \o HexBody, "Signed", ToDigits(RadixVal(HexBody, 16))) >>
Dialect(fmt) ==
    IF fmt = "json5" THEN CommonDialect
    ELSE CommonDialect
         \o << Lit3(<<"0","o">> \o OctBody, "Unsigned", ToDigits(RadixVal(OctBody, 8))), Lit3(<<"0","b">> \o BinBody, "Unsigned", ToDigits(RadixVal(BinBody, 2))),
                Lit3(<<"DASH","0","x">> \o HexBody, "Signed", <<"DASH">> \o ToDigits(RadixVal(HexBody, 16))),
                Lit3(<<"T","r","u","e">>, "Bool", <<"t","r","u","e">>), Lit3(<<"F","A","L","S","E">>, "Bool", <<"f","a","l","s","e">>) >>
DialectCase(fmt) ==
    LET c == NumProject(LitKeys(Dialect(fmt)), "none") IN
    [c EXCEPT !.family = "numbers-dialect", !.abs = c.abs @@ [only |-> fmt]]
\* a negative hexadecimal integer is JSON5 (the sign belongs to every numeric literal); it is the number, exactly
NegHexJson5 ==
    LET sym == <<"DASH","0","x">> \o HexBody
        c == NumProject([n1 |-> LitE("Signed", sym, <<"DASH">> \o ToDigits(RadixVal(HexBody, 16)))], "none") IN
    [c EXCEPT !.family = "numbers-edge", !.abs = c.abs @@ [cls |-> "num:negative-hex", tok |-> sym, only |-> "json5"]]
DialectCases == <<DialectCase("json5"), DialectCase("yaml"), NegHexJson5>>

NumberCases == PortableCases \o <<ArmCase>> \o DialectCases \o EdgeCases
=============================================================================
