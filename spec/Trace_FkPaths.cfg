SPECIFICATION TraceSpec
POSTCONDITION Post
CHECK_DEADLOCK FALSE
