----------------------------- MODULE RobustCases -----------------------------
(* C09 at the pipeline level: adversarial *projects* (grammar-aware), written *)
(* as parametric families.  The only expectation is the outcome class.        *)
EXTENDS Chars

S(str) == StrNode(str)          \* str : symbol sequence
Raw(x) == RawNode(x)
E(k, v) == <<k, v>>

RECURSIVE Rep(_, _)
Rep(x, n) == IF n = 0 THEN <<>> ELSE x \o Rep(x, n - 1)

\* "$t(" path [", " json] ")"
Fk(path)          == <<"DOL", "t", "LP">> \o path \o <<"RP">>
FkArgs(path, js)  == <<"DOL", "t", "LP">> \o path \o <<"COMMA", "SP">> \o js \o <<"RP">>
\* {"count": N}
CountArg(nsyms)   == <<"LB", "QUOT", "c", "o", "u", "n", "t", "QUOT", "COLON", "SP">> \o nsyms \o <<"RB">>
\* {"x": "<string>"}
StrArg(name, str) == <<"LB", "QUOT">> \o name \o <<"QUOT", "COLON", "SP", "QUOT">> \o str \o <<"QUOT", "RB">>
VarX == <<"LB", "LB", "x", "RB", "RB">>

Single(name, class, entries) ==
    [family |-> "robust", abs |-> [name |-> name, class |-> class],
     cfg |-> [default |-> "en", locales |-> <<"en">>],
     files |-> << <<"en", MapNode(entries)>> >>]

Double(name, class, en, fr) ==
    [family |-> "robust", abs |-> [name |-> name, class |-> class],
     cfg |-> [default |-> "en", locales |-> <<"en", "fr">>],
     files |-> << <<"en", MapNode(en)>>, <<"fr", MapNode(fr)>> >>]

\* several locales with an inherits table (sequence of <<locale, parent>>)
Multi(name, class, locs, files, inh) ==
    [family |-> "robust", abs |-> [name |-> name, class |-> class],
     cfg |-> [default |-> locs[1], locales |-> locs, inherits |-> inh],
     files |-> [i \in DOMAIN locs |-> <<locs[i], MapNode(files[i])>>]]

RangeSeq(ty, branches) == SeqNode((IF ty = <<>> THEN <<>> ELSE <<S(ty)>>) \o branches)
Br(v, spec) == SeqNode(<<S(v), S(spec)>>)
BrN(v, raw) == SeqNode(<<S(v), Raw(raw)>>)
Fb(v) == SeqNode(<<S(v)>>)

\* class: "any" = either Ok or Err is fine; "ok" = must load; "err" = must be rejected
Fixed == <<
  Single("fk-in-plural-form", "ok", << E("a", S(<<"y">>)), E("k_one", S(Fk(<<"a">>))), E("k_other", S(<<"x">>)) >>),
  Single("fk-in-plural-other", "ok", << E("a", S(<<"y">>)), E("k_one", S(<<"x">>)), E("k_other", S(Fk(<<"a">>))) >>),
  Single("fk-in-range-branch", "ok", << E("a", S(<<"y">>)), E("r", RangeSeq(<<>>, << Br(Fk(<<"a">>), <<"0">>), Fb(<<"z">>) >>)) >>),
  Single("range-nofallback-literal-count-miss", "any",
         << E("r", RangeSeq(<<>>, << Br(<<"x">>, <<"1">>), Br(<<"y">>, <<"2">>) >>)), E("c", S(FkArgs(<<"r">>, CountArg(<<"5">>)))) >>),
  Single("range-nofallback-literal-count-hit", "ok",
         << E("r", RangeSeq(<<>>, << Br(<<"x">>, <<"1">>), Br(<<"y">>, <<"2">>) >>)), E("c", S(FkArgs(<<"r">>, CountArg(<<"2">>)))) >>),
  Single("range-u8-count-overflow", "any",
         << E("r", RangeSeq(<<"u","8">>, << Br(<<"x">>, <<"1">>), Fb(<<"y">>) >>)), E("c", S(FkArgs(<<"r">>, CountArg(<<"3","0","0">>)))) >>),
  Single("range-count-negative-for-unsigned", "any",
         << E("r", RangeSeq(<<"u","8">>, << Br(<<"x">>, <<"1">>), Fb(<<"y">>) >>)), E("c", S(FkArgs(<<"r">>, CountArg(<<"DASH","1">>)))) >>),
  Single("range-float-count-for-int", "any",
         << E("r", RangeSeq(<<>>, << Br(<<"x">>, <<"1">>), Fb(<<"y">>) >>)), E("c", S(FkArgs(<<"r">>, CountArg(<<"1","DOT","5">>)))) >>),
  Single("range-f64-inf-bound", "any", << E("r", RangeSeq(<<"f","6","4">>, << Br(<<"x">>, <<"i","n","f">>), Fb(<<"y">>) >>)) >>),
  Single("range-f64-nan-bound", "any", << E("r", RangeSeq(<<"f","6","4">>, << Br(<<"x">>, <<"N","a","N">>), Fb(<<"y">>) >>)) >>),
  Single("range-f32-overflow-bound", "any", << E("r", RangeSeq(<<"f","3","2">>, << Br(<<"x">>, <<"1","e","9","9">>), Fb(<<"y">>) >>)) >>),
  Single("range-u8-overflow-bound", "err", << E("r", RangeSeq(<<"u","8">>, << Br(<<"x">>, <<"3","0","0">>), Fb(<<"y">>) >>)) >>),
  Single("range-i8-exclusive-end-at-min", "any", << E("r", RangeSeq(<<"i","8">>, << Br(<<"x">>, <<"DOT","DOT","DASH","1","2","8">>), Fb(<<"y">>) >>)) >>),
  Single("range-u8-exclusive-end-at-zero", "any", << E("r", RangeSeq(<<"u","8">>, << Br(<<"x">>, <<"DOT","DOT","0">>), Fb(<<"y">>) >>)) >>),
  Single("range-empty", "err", << E("r", SeqNode(<<>>)) >>),
  Single("range-only-type", "any", << E("r", RangeSeq(<<"u","8">>, <<>>)) >>),
  Single("range-nested", "err", << E("r", RangeSeq(<<>>, << SeqNode(<< RangeSeq(<<>>, <<Fb(<<"x">>)>>), S(<<"1">>) >>), Fb(<<"y">>) >>)) >>),
  Single("range-number-count", "ok", << E("r", RangeSeq(<<>>, << BrN(<<"x">>, "1"), Fb(<<"y">>) >>)) >>),
  Single("range-float-number-count-for-int", "err", << E("r", RangeSeq(<<>>, << BrN(<<"x">>, "1.5"), Fb(<<"y">>) >>)) >>),
  Single("plural-base-is-keyword", "any", << E("type_one", S(<<"x">>)), E("type_other", S(<<"y">>)) >>),
  Single("plural-base-empty", "any", << E("_one", S(<<"x">>)), E("_other", S(<<"y">>)) >>),
  Single("plural-mixed-ordinal", "err", << E("k_one", S(<<"x">>)), E("k_ordinal_other", S(<<"y">>)) >>),
  Single("plural-collides-with-key", "err", << E("k", S(<<"z">>)), E("k_one", S(<<"x">>)), E("k_other", S(<<"y">>)) >>),
  Single("fk-self-cycle", "err", << E("a", S(Fk(<<"a">>))) >>),
  Single("fk-two-cycle", "err", << E("a", S(Fk(<<"b">>))), E("b", S(Fk(<<"a">>))) >>),
  Single("fk-three-cycle", "err", << E("a", S(Fk(<<"b">>))), E("b", S(Fk(<<"c">>))), E("c", S(<<"x">> \o Fk(<<"a">>))) >>),
  Single("fk-cycle-through-arg", "err", << E("a", S(FkArgs(<<"b">>, StrArg(<<"x">>, Fk(<<"a">>))))), E("b", S(VarX)) >>),
  Single("fk-missing-target", "err", << E("a", S(Fk(<<"z">>))) >>),
  Single("fk-to-group", "err", << E("a", S(Fk(<<"g">>))), E("g", MapNode(<< E("s", S(<<"x">>)) >>)) >>),
  Single("fk-into-group-of-value", "err", << E("a", S(Fk(<<"b","DOT","s">>))), E("b", S(<<"x">>)) >>),
  Single("fk-empty-path", "any", << E("a", S(Fk(<<>>))) >>),
  Single("fk-namespace-without-namespaces", "err", << E("a", S(Fk(<<"n","COLON","b">>))), E("b", S(<<"x">>)) >>),
  Single("fk-args-not-object", "err", << E("a", S(FkArgs(<<"b">>, <<"5">>))), E("b", S(<<"x">>)) >>),
  Single("fk-args-unclosed", "any", << E("a", S(<<"DOL","t","LP","b","COMMA","SP","LB">>)), E("b", S(<<"x">>)) >>),
  Single("fk-args-multibyte", "any", << E("a", S(<<"DOL","t","LP","b","COMMA","E1","RP">>)), E("b", S(<<"x">>)) >>),
  Single("fk-count-to-plain-key", "any", << E("a", S(FkArgs(<<"b">>, CountArg(<<"1">>)))), E("b", S(VarX)) >>),
  Single("fk-count-string-for-plural", "any",
         << E("a", S(FkArgs(<<"k">>, StrArg(<<"c","o","u","n","t">>, <<"z">>)))), E("k_one", S(<<"x">>)), E("k_other", S(<<"y">>)) >>),
  Single("fk-count-bool-for-plural", "any",
         << E("a", S(FkArgs(<<"k">>, CountArg(<<"t","r","u","e">>)))), E("k_one", S(<<"x">>)), E("k_other", S(<<"y">>)) >>),
  Single("fk-count-nan-like-float-for-plural", "any",
         << E("a", S(FkArgs(<<"k">>, CountArg(<<"1","e","3","0","0">>)))), E("k_one", S(<<"x">>)), E("k_other", S(<<"y">>)) >>),
  Single("variable-unknown-formatter", "err", << E("a", S(<<"LB","LB","x","COMMA","SP","z","z","RB","RB">>)) >>),
  Single("variable-invalid-ident", "any", << E("a", S(<<"LB","LB","SP","RB","RB">>)) >>),
  Single("key-invalid-ident", "any", << E("1 a", S(<<"x">>)) >>),
  Single("key-empty", "any", << E("", S(<<"x">>)) >>),
  Single("value-is-number-bool", "ok", << E("a", Raw("5")), E("b", Raw("true")), E("c", Raw("-3")), E("d", Raw("1.5")) >>),
  Single("empty-locale", "ok", <<>>),
  Double("plural-forms-all-null-in-locale", "any", << E("p_one", S(<<"x">>)), E("p_other", S(<<"y">>)) >>, << E("p_one", Raw("null")), E("p_other", Raw("null")) >>),
  Double("plural-one-form-null-in-locale", "any", << E("p_one", S(<<"x">>)), E("p_other", S(<<"y">>)) >>, << E("p_one", Raw("null")), E("p_other", S(<<"z">>)) >>),
  Double("range-branch-null", "any", << E("r", RangeSeq(<<>>, << Br(<<"x">>, <<"1">>), Fb(<<"y">>) >>)) >>, << E("r", Raw("null")) >>),
  Double("group-null-in-locale", "ok", << E("g", MapNode(<< E("s", S(<<"x">>)), E("p_one", S(<<"a">>)), E("p_other", S(<<"b">>)) >>)) >>, << E("g", Raw("null")) >>),
  Single("key-is-rust-keyword", "any", << E("type", S(<<"x">>)), E("fn", S(<<"y">>)) >>),
  Single("key-named-like-generated-item", "any", << E("Locale", S(<<"x">>)), E("I18nKeys", S(<<"y">>)), E("builders", S(<<"z">>)), E("subkeys", S(<<"w">>)) >>),
  Single("var-named-like-internal", "any", << E("a", S(<<"LB","LB","l","o","c","a","l","e","RB","RB","SP","LB","LB","US","US","f","o","r","m","a","t","t","e","r","RB","RB">>)) >>),
  Single("var-and-comp-same-name", "any", << E("a", S(<<"LB","LB","b","RB","RB","LT","b","GT","x","LT","SL","b","GT">>)) >>),
  Double("subkey-mismatch", "err", << E("g", MapNode(<< E("s", S(<<"x">>)) >>)) >>, << E("g", S(<<"y">>)) >>),
  Double("range-type-mismatch", "err", << E("r", RangeSeq(<<"u","8">>, << Br(<<"x">>, <<"1">>), Fb(<<"y">>) >>)) >>,
                                         << E("r", RangeSeq(<<"i","8">>, << Br(<<"x">>, <<"1">>), Fb(<<"y">>) >>)) >>),
  Double("range-and-plural-mix", "err", << E("r", RangeSeq(<<>>, << Br(<<"x">>, <<"1">>), Fb(<<"y">>) >>)) >>,
                                          << E("r_one", S(<<"x">>)), E("r_other", S(<<"y">>)) >>),
  Double("fk-null-target-in-locale", "ok", << E("a", S(<<"y">>)), E("b", S(Fk(<<"a">>))) >>, << E("a", Raw("null")), E("b", S(Fk(<<"a">>))) >>),
  Double("fk-to-explicit-null-in-default", "err", << E("a", Raw("null")), E("b", S(Fk(<<"a">>))) >>, << E("a", S(<<"y">>)), E("b", S(<<"x">>)) >>)
>>

\* deep / long families: depth n
NestedComps(n) == Rep(<<"LT", "b", "GT">>, n) \o <<"x">> \o Rep(<<"LT", "SL", "b", "GT">>, n)
ManyVars(n)    == Rep(VarX, n)
ManyComps(n)   == Rep(<<"LT", "b", "GT", "x", "LT", "SL", "b", "GT">>, n)
UnclosedTags(n) == Rep(<<"LT", "b", "GT">>, n)
OpenBraces(n)  == <<"DOL", "t", "LP", "a", "COMMA", "SP">> \o Rep(<<"LB">>, n)

Digs10 == <<"0","1","2","3","4","5","6","7","8","9">>
RECURSIVE DigsOf(_)
DigsOf(i) == IF i < 10 THEN <<Digs10[i + 1]>> ELSE DigsOf(i \div 10) \o <<Digs10[(i % 10) + 1]>>

\* ---- range declarations, adversarially: every (type, branch form, count token, count written as string / number, kind of
\* branch value, kind of fallback value).  Expectation: Ok or Err, nothing else (and the code generator must cope with
\* whatever the parser accepted).
RTypes == { <<>>, <<"u","8">>, <<"i","8">>, <<"f","3","2">>, <<"f","6","4">> }
NumToks == { <<"0">>, <<"3","0","0">>, <<"DASH","1">>, <<"1","DOT","5">>, <<"1","e","9","9">>, <<"DASH","1","e","9","9">>, <<"DASH","0">>,
             <<"1","e","DASH","4","0","0">>, <<"1","8","4","4","6","7","4","4","0","7","3","7","0","9","5","5","1","6","1","6">> }
StrOnlyToks == { <<"i","n","f">>, <<"N","a","N">>, <<>>, <<"DOT","DOT">>, <<"1","DOT","DOT","EQ">>, <<"5","DOT","DOT","1">> }
ValueKinds == { "str", "null", "num", "bool", "map", "seq", "empty", "inf", "nan" }
ValueNode(k) == CASE k = "str" -> S(<<"x">>) [] k = "null" -> Raw("null") [] k = "num" -> Raw("5") [] k = "bool" -> Raw("true")
                  [] k = "map" -> MapNode(<< E("s", S(<<"x">>)) >>) [] k = "seq" -> SeqNode(<< S(<<"x">>) >>)
                  [] k \in {"inf", "nan"} -> SpecialNode(k) [] OTHER -> S(<<>>)
RangeAdvCase(ty, struct, tok, asNum, vk, fk) ==
    LET count == IF Len(tok) = 2 /\ tok[1] = "SPECIAL" THEN SpecialNode(tok[2]) ELSE IF asNum THEN Raw(Str(tok)) ELSE S(tok)
        branch == IF struct THEN MapNode(<< E("count", count), E("value", ValueNode(vk)) >>) ELSE SeqNode(<< ValueNode(vk), count >>)
        fb == IF struct THEN MapNode(<< E("value", ValueNode(fk)) >>) ELSE SeqNode(<< ValueNode(fk) >>) IN
    Single("range-adv", "any", << E("r", RangeSeq(ty, << branch, fb >>)) >>)
\* (universes are built as SEQUENCES over sets of homogeneous index tuples: a set of cases would make TLC compare file
\* nodes of different shapes)
\* (count tokens <<"SPECIAL", v>> are written as the format's own spelling of inf / nan)
RangeAdvIdx ==
    { <<ty, st, <<"SPECIAL", v>>, TRUE, "str", "str">> : ty \in RTypes, st \in BOOLEAN, v \in {"inf", "neginf", "nan"} } \cup
    { <<ty, st, tok, FALSE, vk, "str">> : ty \in RTypes, st \in BOOLEAN, tok \in NumToks \cup StrOnlyToks, vk \in ValueKinds }
    \cup { <<ty, st, tok, TRUE, vk, "str">> : ty \in RTypes, st \in BOOLEAN, tok \in NumToks, vk \in {"str", "null"} }
    \cup { <<ty, st, <<"0">>, FALSE, "str", fk>> : ty \in RTypes, st \in BOOLEAN, fk \in ValueKinds }
RangeAdversarial == LET I == SetToSeq(RangeAdvIdx) IN [j \in DOMAIN I |-> RangeAdvCase(I[j][1], I[j][2], I[j][3], I[j][4], I[j][5], I[j][6])]

\* ---- keys and values, adversarially: odd key names x every kind of JSON value, in the default locale and in a second one
KeyNames == { "k", "", "a-b", "type", "1a", "a b", "self", "_", "a.b", "a:b", "Self", "crate", "k_", "_one", "k_one_one" }
AnyKinds == { "str", "null", "num", "neg", "float", "bool", "map", "emptymap", "seq", "emptyseq", "empty", "var", "inf", "neginf", "nan", "fk", "fkself" }
AnyNode(k) == CASE k = "str" -> S(<<"x">>) [] k = "null" -> Raw("null") [] k = "num" -> Raw("5") [] k = "neg" -> Raw("-3")
                [] k = "float" -> Raw("1.5") [] k = "bool" -> Raw("true") [] k = "map" -> MapNode(<< E("s", S(<<"x">>)) >>)
                [] k = "emptymap" -> MapNode(<<>>) [] k = "seq" -> SeqNode(<< SeqNode(<< S(<<"x">>) >>) >>) [] k = "emptyseq" -> SeqNode(<<>>)
                [] k = "var" -> S(VarX) [] k \in {"inf", "neginf", "nan"} -> SpecialNode(k)
                \* a reference to the sibling key z, and one to the key k itself (whatever k has become: a plural base, a dashed name ...)
                [] k = "fk" -> S(Fk(<<"z">>)) [] k = "fkself" -> S(<<"p">> \o Fk(<<"k">>)) [] OTHER -> S(<<>>)
KeyAdvIdx == { <<n, k1, k2>> : n \in {"k", "a-b", "type"}, k1 \in AnyKinds, k2 \in AnyKinds } \cup { <<n, k1, k1>> : n \in KeyNames, k1 \in AnyKinds }
KeyAdversarial == LET I == SetToSeq(KeyAdvIdx) IN
    [j \in DOMAIN I |-> Double("key-adv", "any", << E(I[j][1], AnyNode(I[j][2])), E("z", S(<<"z">>)) >>, << E(I[j][1], AnyNode(I[j][3])), E("z", S(<<"z">>)) >>)]
\* plural members of every kind of value
\* (first form `one`: used by the locales of the project; `few` / `zero`: forms their plural rules never select, so the loader also
\* walks its "unused form" diagnostics)
PluralAdvIdx == { <<b, k1, k2, f>> : b \in {"k", "k_ordinal"}, k1 \in AnyKinds, k2 \in AnyKinds, f \in {"_one", "_few", "_zero"} }
PluralAdversarial == LET I == SetToSeq(PluralAdvIdx) IN
    [j \in DOMAIN I |-> Double("plural-adv", "any", << E(I[j][1] \o I[j][4], AnyNode(I[j][2])), E(I[j][1] \o "_other", AnyNode(I[j][3])), E("z", S(<<"z">>)) >>,
                                << E(I[j][1] \o I[j][4], AnyNode(I[j][3])), E(I[j][1] \o "_other", AnyNode(I[j][2])), E("z", S(<<"z">>)) >>)]

\* names inside values: variables and components whose names are dashed, keywords, digits, empty; at top level, inside a
\* dashed subkey group, inside a range branch, inside a plural form, and as the argument name of a foreign key
OddNames == { <<"x">>, <<"m","y","DASH","v">>, <<"t","y","p","e">>, <<"s","e","l","f">>, <<"1">>, <<>>, <<"a","SP","b">>, <<"c","o","u","n","t">>,
              <<"S","e","l","f">>, <<"US">>, <<"a","DOT","b">>, <<"E1">> }
VarOf(n) == <<"LB", "LB", "SP">> \o n \o <<"SP", "RB", "RB">>
CompOf(n) == <<"LT">> \o n \o <<"GT", "x", "LT", "SL">> \o n \o <<"GT">>
NameValue(n, vk) == CASE vk = "var" -> VarOf(n) [] vk = "comp" -> CompOf(n) [] OTHER -> CompOf(n) \o VarOf(n)
NameAdvOf(k, n, v) ==
            << Single("name-adv", "any", << E(k, S(v)) >>),
              Single("name-adv", "any", << E("g-h", MapNode(<< E(k, S(v)) >>)) >>),
              Single("name-adv", "any", << E(k, RangeSeq(<<>>, << Br(v, <<"0">>), Fb(<<"y">>) >>)) >>),
              Single("name-adv", "any", << E(k \o "_one", S(v)), E(k \o "_other", S(<<"y">>)) >>),
              Single("name-adv", "any", << E("t", S(VarOf(n))), E(k, S(FkArgs(<<"t">>, StrArg(n, <<"A">>)))) >>),
              Double("name-adv", "any", << E(k, S(v)) >>, << E(k, S(<<"p","l","a","i","n">>)) >>),
              Double("name-adv", "any", << E(k, S(<<"p","l","a","i","n">>)) >>, << E(k, S(v)) >>) >>
NameAdvIdx == { <<k, n, vk>> : k \in {"k", "a-b"}, n \in OddNames, vk \in {"var", "comp", "both"} }
NameAdversarial == LET I == SetToSeq(NameAdvIdx) IN Cat([j \in DOMAIN I |-> NameAdvOf(I[j][1], I[j][2], NameValue(I[j][2], I[j][3]))])

\* a reference whose target is null along an inherits chain: loops entered from outside, loops alone, chains, self loops
NullA == << E("a", Raw("null")), E("b", S(Fk(<<"a">>))) >>
NoA == << E("b", S(Fk(<<"a">>))) >>
DefA == << E("a", S(<<"y">>)), E("b", S(Fk(<<"a">>))) >>
AOf(k) == CASE k = "null" -> NullA [] k = "no" -> NoA [] OTHER -> DefA
InhTables == << << <<"es", "fr">>, <<"fr", "de">>, <<"de", "fr">> >>,
               << <<"fr", "de">>, <<"de", "fr">> >>,
               << <<"es", "fr">>, <<"fr", "de">> >>,
               << <<"es", "es">> >>,
               << <<"fr", "de">>, <<"de", "es">>, <<"es", "fr">> >>,
               << <<"es", "de">>, <<"fr", "de">>, <<"de", "fr">> >> >>
InheritsIdx == { <<f, d, e, t>> : f \in {"null", "no"}, d \in {"null", "no"}, e \in {"null", "no", "def"}, t \in DOMAIN InhTables }
InheritsLoops == LET I == SetToSeq(InheritsIdx) IN
    [j \in DOMAIN I |-> Multi("inherits-loop", "any", <<"en", "fr", "de", "es">>, << DefA, AOf(I[j][1]), AOf(I[j][2]), AOf(I[j][3]) >>, InhTables[I[j][4]])]

\* ---- namespaces, adversarially: two locales x two namespaces; one of the four files is of an odd kind (missing, empty map, a
\* sequence, a string, null, a number), and references across namespaces (known / unknown namespace, missing key, cycle across
\* namespaces, a reference without namespace inside a namespaced project)
NsFileKinds == << "normal", "missing", "emptymap", "seq", "str", "null", "num" >>
NsNormal(l, n) == MapNode(<< E("k", S(<<"x">>)), E("r", S(Fk(<<"b", "COLON", "k">>))) >>)
NsFile(kind, l, n) == CASE kind = "emptymap" -> MapNode(<<>>) [] kind = "seq" -> SeqNode(<< S(<<"x">>) >>) [] kind = "str" -> S(<<"x">>)
                        [] kind = "null" -> Raw("null") [] kind = "num" -> Raw("5") [] OTHER -> NsNormal(l, n)
NsSlots == << <<"en", "a">>, <<"en", "b">>, <<"fr", "a">>, <<"fr", "b">> >>
NsAdvCase(slot, kind) ==
    [family |-> "robust", abs |-> [name |-> "ns-adv", class |-> "any"],
     cfg |-> [default |-> "en", locales |-> <<"en", "fr">>, namespaces |-> <<"a", "b">>],
     files |-> LET keep == SelectSeq(NsSlots, LAMBDA sl : ~(sl = NsSlots[slot] /\ kind = "missing")) IN
               [i \in DOMAIN keep |-> <<keep[i][1] \o "/" \o keep[i][2],
                                          IF keep[i] = NsSlots[slot] THEN NsFile(kind, keep[i][1], keep[i][2]) ELSE NsNormal(keep[i][1], keep[i][2])>>]]
NsRefTargets == << <<"b", "COLON", "k">>, <<"z", "COLON", "k">>, <<"b", "COLON", "z">>, <<"a", "COLON", "r">>, <<"k">>, <<"COLON", "k">>, <<"b", "COLON">>,
                  <<"b", "COLON", "k", "COLON", "k">>, <<"a", "DOT", "k">> >>
NsRefCase(t) ==
    [family |-> "robust", abs |-> [name |-> "ns-adv", class |-> "any"],
     cfg |-> [default |-> "en", locales |-> <<"en">>, namespaces |-> <<"a", "b">>],
     files |-> << <<"en/a", MapNode(<< E("k", S(<<"x">>)), E("r", S(Fk(NsRefTargets[t]))) >>)>>,
                  <<"en/b", MapNode(<< E("k", S(Fk(<<"a", "COLON", "k">>))), E("q", S(Fk(<<"a", "COLON", "r">>))) >>)>> >>]
NamespaceAdversarial ==
    LET I == SetToSeq({ <<sl, k>> : sl \in DOMAIN NsSlots, k \in DOMAIN NsFileKinds }) IN
    [j \in DOMAIN I |-> NsAdvCase(I[j][1], NsFileKinds[I[j][2]])] \o [t \in DOMAIN NsRefTargets |-> NsRefCase(t)]

\* ---- formatters, adversarially: every formatter name (plus an unknown one and none) x argument texts that are unbalanced, empty,
\* repeated, non-ASCII, too long - on a plain variable, on a plural count and inside a range branch
FmtNames == << <<"n","u","m","b","e","r">>, <<"d","a","t","e">>, <<"t","i","m","e">>, <<"d","a","t","e","t","i","m","e">>, <<"l","i","s","t">>,
              <<"c","u","r","r","e","n","c","y">>, <<"f","o","o">>, <<>> >>
FmtArgs == << <<>>, <<"LP","RP">>, <<"LP">>, <<"RP">>, <<"LP","SEMI","RP">>, <<"LP","a","RP">>, <<"LP","a","COLON","RP">>, <<"LP","COLON","b","RP">>,
             <<"LP","w","i","d","t","h","COLON","SP","n","a","r","r","o","w">>,
             <<"LP","c","u","r","r","e","n","c","y","US","c","o","d","e","COLON","RP">>,
             <<"LP","c","u","r","r","e","n","c","y","US","c","o","d","e","COLON","SP","A","B","C","D","RP">>,
             <<"LP","c","u","r","r","e","n","c","y","US","c","o","d","e","COLON","SP","E1","RP">>,
             <<"LP","c","u","r","r","e","n","c","y","US","c","o","d","e","COLON","SP","a","SP","b","RP">>,
             <<"LP","c","u","r","r","e","n","c","y","US","c","o","d","e","COLON","SP","QUOT","RP">>,
             <<"LP","d","a","t","e","US","l","e","n","g","t","h","COLON","RP">>,
             <<"LP","d","a","t","e","US","l","e","n","g","t","h","COLON","SP","l","o","n","g","SEMI","SP","d","a","t","e","US","l","e","n","g","t","h","COLON","SP","s","h","o","r","t","RP">>,
             <<"LP","l","i","s","t","US","t","y","p","e","COLON","SP","a","n","d","SEMI","RP">>,
             <<"LP","LP","RP","RP">>, <<"LP","RB","RB","RP">>, <<"COMMA">>, <<"COMMA","n","u","m","b","e","r">>, <<"SP","SP">> >>
FmtValue(nm, ar) == <<"LB", "LB", "SP", "v", "COMMA", "SP">> \o nm \o ar \o <<"SP", "RB", "RB">>
FmtAdvIdx == { <<i, j>> : i \in DOMAIN FmtNames, j \in DOMAIN FmtArgs }
FormatterAdversarial == LET I == SetToSeq(FmtAdvIdx) IN
    Cat([q \in DOMAIN I |->
        LET v == FmtValue(FmtNames[I[q][1]], FmtArgs[I[q][2]]) IN
        << Single("fmt-adv", "any", << E("k", S(v)) >>),
           Single("fmt-adv", "any", << E("k_one", S(v)), E("k_other", S(<<"LB","LB","c","o","u","n","t","COMMA">> \o FmtNames[I[q][1]] \o FmtArgs[I[q][2]] \o <<"RB","RB">>)) >>),
           Single("fmt-adv", "any", << E("k", RangeSeq(<<>>, << Br(v, <<"0">>), Fb(<<"y">>) >>)) >>) >>])

\* ---- odd locale and namespace names (they become Rust identifiers, module names, file names)
OddLocales == << "en", "en-US", "en_US", "EN", "zh-Hant-TW", "type", "self", "1x", "e n", "", "fr-", "-fr", "x-private", "en-US-u-ca-buddhist",
                 "sr-Latn", "i-klingon", "en.US", "root", "und", "Self", "crate", "en--US" >>
OddNamespaces == << "common", "a-b", "type", "self", "1x", "a b", "", "mod", "super", "a.b", "Self", "crate", "i18n", "Locale" >>
ConfigAdvCase(defl, other, ns) ==
    [family |-> "robust", abs |-> [name |-> "config-adv", class |-> "any"],
     cfg |-> [default |-> defl, locales |-> <<defl, other>>, namespaces |-> IF ns = "-" THEN None ELSE <<ns, "zz">>],
     files |-> IF ns = "-" THEN << <<defl, MapNode(<< E("k", S(VarX)) >>)>>, <<other, MapNode(<< E("k", S(<<"x">>)) >>)>> >>
               ELSE << <<defl \o "/" \o ns, MapNode(<< E("k", S(VarX)) >>)>>, <<other \o "/" \o ns, MapNode(<< E("k", S(<<"x">>)) >>)>>,
                       <<defl \o "/zz", MapNode(<< E("k", S(<<"x">>)) >>)>>, <<other \o "/zz", MapNode(<< E("k", S(<<"x">>)) >>)>> >>]
ConfigAdversarial ==
    [j \in DOMAIN OddLocales |-> ConfigAdvCase("en", OddLocales[j], "-")]
    \o [j \in DOMAIN OddLocales |-> ConfigAdvCase(OddLocales[j], "fr", "-")]
    \o [j \in DOMAIN OddNamespaces |-> ConfigAdvCase("en", "fr", OddNamespaces[j])]
    \o [j \in DOMAIN OddLocales |-> ConfigAdvCase("en", OddLocales[j], "common")]

\* nesting depth n (recursion of the splitter is inherent in nesting)
DeepNest(n) == <<
  Single("nested-comps-" \o ToString(n), "ok", << E("a", S(NestedComps(n))) >>)
>>
\* length n (a sequence of n pieces needs no recursion)
DeepSeq(n) == <<
  Single("many-vars-" \o ToString(n), "ok", << E("a", S(ManyVars(n))) >>),
  Single("many-comps-" \o ToString(n), "ok", << E("a", S(ManyComps(n))) >>),
  Single("unclosed-tags-" \o ToString(n), "ok", << E("a", S(UnclosedTags(n))) >>),
  Single("open-braces-" \o ToString(n), "any", << E("a", S(OpenBraces(n))), E("b", S(<<"x">>)) >>)
>>
=============================================================================
