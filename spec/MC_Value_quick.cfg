CONSTANTS
  Texts <- MCTexts
  VarNames <- MCVars
  CompNames <- MCComps
  MaxTokens = 4
  MaxDepth = 2
SPECIFICATION MCSpec
INVARIANTS Canonical RoundTripMC DenoteIsSource EmitCases EmitScale ScaleRoundTrip
PROPERTY Termination
CHECK_DEADLOCK FALSE
