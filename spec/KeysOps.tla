------------------------------ MODULE KeysOps ------------------------------
(* C07  Key sets are checked against the default locale, with exact          *)
(* diagnostics.                                                               *)
(*                                                                           *)
(* A key tree is a function  key name -> node,  node being                   *)
(*   [t |-> "val"] | [t |-> "null"] | [t |-> "group", c |-> tree];           *)
(* absent keys are not in the domain.  Paths are sequences of key names.     *)
EXTENDS Common, IOUtils

Val   == [t |-> "val"]
Null  == [t |-> "null"]
Group(c) == [t |-> "group", c |-> c]
EmptyTree == << >>      \* function with empty domain

IsGroup(n) == n.t = "group"

\* ---- declarative diagnostics ----------------------------------------------
\* Both trees are walked together; only levels that exist as groups on both sides are compared.
RECURSIVE MissingAt(_, _, _), SurplusAt(_, _, _), MismatchAt(_, _, _)

\* maximal paths present in the default tree d and absent (not null) in the locale tree t
MissingAt(d, t, path) ==
    UNION { IF k \notin DOMAIN t THEN { path \o <<k>> }
            ELSE IF IsGroup(d[k]) /\ IsGroup(t[k]) THEN MissingAt(d[k].c, t[k].c, path \o <<k>>)
            ELSE {}
          : k \in DOMAIN d }

\* maximal paths present (even as null) in the locale tree and not in the default tree
SurplusAt(d, t, path) ==
    { path \o <<k>> : k \in DOMAIN t \ DOMAIN d }
    \cup UNION { IF IsGroup(d[k]) /\ IsGroup(t[k]) THEN SurplusAt(d[k].c, t[k].c, path \o <<k>>) ELSE {}
                 : k \in DOMAIN d \cap DOMAIN t }

\* a key that is a group on one side and a value on the other (null never clashes)
MismatchAt(d, t, path) ==
    UNION { IF d[k].t = "null" \/ t[k].t = "null" THEN {}
            ELSE IF IsGroup(d[k]) # IsGroup(t[k]) THEN { path \o <<k>> }
            ELSE IF IsGroup(d[k]) THEN MismatchAt(d[k].c, t[k].c, path \o <<k>>)
            ELSE {}
          : k \in DOMAIN d \cap DOMAIN t }

\* explicit null anywhere in the default locale is an error
RECURSIVE NullIn(_)
NullIn(d) == \E k \in DOMAIN d : d[k].t = "null" \/ (IsGroup(d[k]) /\ NullIn(d[k].c))

\* the namespace the project under validation lives in (None when the project has no namespaces)
WarnNs == IF "NS" \in DOMAIN IOEnv THEN IOEnv.NS ELSE None
Warn(kind, l, p) == [kind |-> kind, locale |-> l, at |-> [ns |-> WarnNs, path |-> p]]

\* the diagnostics of one non-default locale; `silent`: it has an inherits entry (or the
\* suppress_key_warnings build), `nosurplus`: the suppress_key_warnings build
ExpectedWarns(d, t, l, silent, nosurplus) ==
    (IF silent THEN {} ELSE { Warn("missing", l, p) : p \in MissingAt(d, t, <<>>) })
    \cup (IF nosurplus THEN {} ELSE { Warn("surplus", l, p) : p \in SurplusAt(d, t, <<>>) })

LoadFails(d, ts) == NullIn(d) \/ \E i \in DOMAIN ts : MismatchAt(d, ts[i], <<>>) # {}

\* ---- what each locale shows for a leaf of the default tree -----------------
\* the node of tree t at path p, "abs" if some step is missing, null or not a group
RECURSIVE NodeAt(_, _)
NodeAt(t, p) ==
    IF p = <<>> THEN Group(t)
    ELSE IF Head(p) \notin DOMAIN t THEN [t |-> "abs"]
    ELSE IF Len(p) = 1 THEN t[Head(p)]
    ELSE IF IsGroup(t[Head(p)]) THEN NodeAt(t[Head(p)].c, Tail(p))
    ELSE [t |-> "abs"]

RECURSIVE LeafPaths(_, _)
LeafPaths(d, path) ==
    UNION { IF IsGroup(d[k]) THEN LeafPaths(d[k].c, path \o <<k>>) ELSE { path \o <<k>> } : k \in DOMAIN d }
=============================================================================
