---------------------------- MODULE Trace_Strings ----------------------------
(* C11: the string table of every locale holds, at each literal's index, the  *)
(* literal's text; nested subkey locales carry the top locale's count; the    *)
(* files written by the build helper are JSON that decodes to that table.     *)
(*   TRACE     : Build events of drv_build (exported files, decoded)           *)
(*   LOADTRACE : Load events of drv_parser on the same projects (tables, trees)*)
EXTENDS Common, Json, IOUtils

Rec     == ndJsonDeserialize(IOEnv.TRACE)
LoadRec == ndJsonDeserialize(IOEnv.LOADTRACE)
Cases   == ndJsonDeserialize(IOEnv.CASES)

VARIABLE l

\* the Load event of a case: events come in (Begin, Load) pairs
LoadOf(case) == LET I == { i \in DOMAIN LoadRec : LoadRec[i].ev \in {"Load", "Crash"} /\ LoadRec[i].case = case } IN
                LoadRec[CHOOSE i \in I : TRUE]

RECURSIVE PiecesTabOK(_)
PiecesTabOK(ps) ==
    \A i \in DOMAIN ps :
        CASE ps[i].k = "text" -> ps[i].tab = ps[i].s
          [] ps[i].k = "comp" -> PiecesTabOK(ps[i].c)
          [] ps[i].k = "ranges" -> \A j \in DOMAIN ps[i].b : PiecesTabOK(ps[i].b[j])
          [] ps[i].k = "plurals" -> \A f \in DOMAIN ps[i].forms : PiecesTabOK(ps[i].forms[f])
          [] OTHER -> TRUE

RECURSIVE LevelTags(_, _, _)
LevelTags(level, counts, prefix) ==
    UNION { LET e == level[k] IN
            IF e.t = "value"
            THEN UNION { IF PiecesTabOK(e.vals[x].c) THEN {} ELSE {"literal-index:" \o prefix \o k \o ":" \o x} : x \in DOMAIN e.vals }
            ELSE (IF e.counts = counts THEN {} ELSE {"nested-count:" \o prefix \o k})
                 \cup LevelTags(e.keys, counts, prefix \o k \o ".")
          : k \in DOMAIN level }

UnitTags(u) ==
    LET counts == [i \in DOMAIN u.tables |-> u.tables[i].count] IN
    (IF \A i \in DOMAIN u.tables : u.tables[i].count = Len(u.tables[i].strings) THEN {} ELSE {"table-count:" \o u.ns})
    \cup LevelTags(u.keys, counts, IF u.ns = None THEN "" ELSE u.ns \o "::")

\* expected literal of key names[j] in en / fr (project of strings): the j-th / (n+1-j)-th string
ProjectTags(a, u) ==
    LET n == Len(a.names) IN
    UNION { LET e == u.keys[a.names[j]] IN
            (IF a.values[j] = <<>> \/ (Len(e.vals["en"].c) = 1 /\ e.vals["en"].c[1].s = a.values[j]) THEN {} ELSE {"text:en:" \o a.names[j]})
            \cup (IF a.values[n + 1 - j] = <<>> \/ (Len(e.vals["fr"].c) = 1 /\ e.vals["fr"].c[1].s = a.values[n + 1 - j]) THEN {} ELSE {"text:fr:" \o a.names[j]})
            \cup (LET r == a.values[(j % n) + 1] IN          \* de: the strings rotated by one
                  IF r = <<>> \/ (Len(e.vals["de"].c) = 1 /\ e.vals["de"].c[1].s = r) THEN {} ELSE {"text:de:" \o a.names[j]})
          : j \in 1..n }

FileOf(u, t) == (IF u.ns = None THEN "" ELSE u.ns \o "/") \o t.locale \o ".json"

BuildTags(ev) ==
    LET ld == LoadOf(ev.case)
        a == Cases[ev.case].abs IN
    IF ev.outcome # "Ok" THEN {"build-outcome:" \o ev.outcome}
    ELSE IF ld.ev # "Load" \/ ld.load.outcome # "Ok" THEN {"load-outcome"}
    ELSE (IF ev.res.write = "Ok" THEN {} ELSE {"write-failed"})
         \cup UNION { UnitTags(ld.load.units[i]) : i \in DOMAIN ld.load.units }
         \cup ProjectTags(a, ld.load.units[1])
         \cup UNION { UNION { LET u == ld.load.units[i]
                                  t == u.tables[j]
                                  f == FileOf(u, t) IN
                              IF f \notin DOMAIN ev.res.exported THEN {"not-exported:" \o f}
                              ELSE IF "decoded" \notin DOMAIN ev.res.exported[f] THEN {"exported-not-json:" \o f}
                              ELSE IF ev.res.exported[f].decoded # t.strings THEN {"exported-differs:" \o f}
                              ELSE {}
                            : j \in DOMAIN ld.load.units[i].tables } : i \in DOMAIN ld.load.units }

\* L2: what the generated server function answered for (locale, translation unit), decoded as the client decodes it
ServerFnTags(ev) ==
    LET ld == LoadOf(ev.case) IN
    IF ev.outcome # "Ok" THEN {"serverfn-outcome:" \o ev.outcome}
    ELSE IF ld.ev # "Load" \/ ld.load.outcome # "Ok" THEN {"load-outcome"}
    ELSE LET U == { i \in DOMAIN ld.load.units : ld.load.units[i].ns = ev.unit } IN
         IF U = {} THEN {"harness-unknown-unit"}
         ELSE LET u == ld.load.units[CHOOSE i \in U : TRUE]
                  T == { j \in DOMAIN u.tables : u.tables[j].locale = ev.locale } IN
              IF T = {} THEN {"harness-unknown-locale"}
              ELSE IF ev.strings = u.tables[CHOOSE j \in T : TRUE].strings THEN {} ELSE {"served-table-differs:" \o ev.unit \o ":" \o ev.locale}

Tags(ev) == IF ev.ev = "Build" THEN BuildTags(ev)
            ELSE IF ev.ev = "ServerFn" THEN ServerFnTags(ev)
            ELSE IF ev.ev = "Crash" THEN {"crash:" \o ev.outcome}
            ELSE {}

TraceInit == l = 1
TraceNext ==
    /\ l <= Len(Rec)
    /\ l' = l + 1
    /\ LET tags == Tags(Rec[l]) IN
         tags = {} \/ PrintT(<<"REJECT", ToJson([l |-> l, case |-> Rec[l].case, tags |-> tags])>>)
TraceSpec == TraceInit /\ [][TraceNext]_l

Post == PrintT(<<"SUMMARY", ToJson([events |-> Len(Rec), consumed |-> TLCGet("stats").diameter - 1])>>)
=============================================================================
