------------------------------ MODULE MC_Robust ------------------------------
(* Emits the adversarial projects of RobustCases (no state machine of its own; *)
(* the model-checked part of C09 is MC_Adversarial).                           *)
EXTENDS RobustCases, Json
CONSTANT Depths          \* [seq |-> lengths, nest |-> nesting depths]
DepthsQuick == [seq |-> <<10, 100, 10000>>, nest |-> <<10, 100, 1000, 10000>>]
DepthsThorough == [seq |-> <<10, 100, 1000, 3000, 10000, 30000>>, nest |-> <<10, 100, 1000, 3000, 10000>>]
VARIABLE i
All == Fixed \o RangeAdversarial \o KeyAdversarial \o PluralAdversarial \o NameAdversarial \o InheritsLoops \o ConfigAdversarial \o FormatterAdversarial \o NamespaceAdversarial \o Cat([d \in 1..Len(Depths.seq) |-> DeepSeq(Depths.seq[d])]) \o Cat([d \in 1..Len(Depths.nest) |-> DeepNest(Depths.nest[d])])
\* one step prints every case (the sequence is built once)
Init == i = 0
Next == i = 0 /\ i' = 1 /\ LET A == All IN \A j \in DOMAIN A : PrintT(<<"CASE", ToJson(A[j])>>)
Spec == Init /\ [][Next]_i
=============================================================================
