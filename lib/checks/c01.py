"""C01  Rendered text is exactly what the translation source says (parser level, L1)."""
import json
import random

import vp
from checks import loadfam


def value_cases(run, values, per_value):
    """values: CASE records of MC_Value.  Returns value-mode cases (one per chosen spelling)."""
    rng = random.Random(run.seed)
    out = []
    for v in values:
        sp = v["spellings"]
        plain = min(sp, key=len)
        chosen = [plain]
        rest = [s for s in sp if s != plain]
        if per_value is None or len(rest) <= per_value:
            chosen += rest
        else:
            chosen += rng.sample(rest, per_value)
        for s in chosen:
            out.append({"mode": "value", "abs": {"ast": v["abs"]["ast"]}, "s": s})
    return out


def project_cases(run, values, per_project=150):
    """Packs values as keys of two-locale projects: key j holds value j in en and value N+1-j in fr."""
    rng = random.Random(run.seed + 1)
    out = []
    for start in range(0, len(values), per_project):
        chunk = values[start:start + per_project]
        n = len(chunk)
        names = ["k%04d" % (j + 1) for j in range(n)]
        spell = [rng.choice(v["spellings"]) for v in chunk]
        en = {"t": "map", "e": [[names[j], {"t": "str", "s": spell[j]}] for j in range(n)]}
        fr = {"t": "map", "e": [[names[j], {"t": "str", "s": spell[n - 1 - j]}] for j in range(n)]}
        out.append({"family": "value-project",
                    "abs": {"names": names, "values": [v["abs"]["ast"] for v in chunk]},
                    "cfg": {"default": "en", "locales": ["en", "fr"]},
                    "files": [["en", en], ["fr", fr]]})
    return out


def _names(ast, kind):
    """names as written in the file (characters, not symbol names)"""
    out = set()
    for p in ast:
        if p["k"] == kind:
            out.add(vp.text_of(p["n"]))
        if p["k"] == "comp":
            out |= _names(p["c"], kind)
    return out


def _has_empty(ast):
    """an empty value or a component without children: leptos' SSR writes a one-space placeholder for an empty text
    node, which is an artefact of observing a view through its HTML, not a property of leptos_i18n"""
    return not ast or any(p["k"] == "comp" and _has_empty(p["c"]) for p in ast)


def _tag_of(name):
    return "".join(ch for ch in name if ch.isascii()) or "span"


def _respell_tags(out, names):
    for nme in names:
        t = _tag_of(nme)
        if t != nme:
            out = out.replace("<%s>" % t, "<%s>" % nme).replace("</%s>" % t, "</%s>" % nme)
    return out


ENVS = [{"x": "X1", "y": "Y2"}, {"x": "{{ y }}<b>$t(a)", "y": ""}]


def l2_projects(run, pcases, max_projects):
    """probe projects for the packed value projects: every key x locale x flavour x environment"""
    from probe import to_syms
    projects, meta = [], []
    for pi, c in enumerate(pcases[:max_projects]):
        a = c["abs"]
        n = len(a["names"])
        calls = []
        info = {}
        for j, name in enumerate(a["names"]):
            asts = {"en": a["values"][j], "fr": a["values"][n - 1 - j]}
            vars_ = sorted(_names(asts["en"], "var") | _names(asts["fr"], "var"))
            comps = sorted(_names(asts["en"], "comp") | _names(asts["fr"], "comp"))
            for loc in ("en", "fr"):
                for flav in ("td_string", "td_display", "td"):
                    for ei, env in enumerate(ENVS):
                        if ei == 1 and (flav == "td" or not vars_):
                            continue
                        if flav == "td" and _has_empty(asts[loc]):
                            continue
                        cid = len(calls) + 1
                        # (a component is supplied as "wrap the children in an HTML element"; an element name must be ASCII, so a
                        # component named `ié` wraps in <i> and the output is spelled back below)
                        args = [["var", v, json.dumps(env[v])] for v in vars_] + [["comp", k, _tag_of(k)] for k in comps]
                        calls.append({"id": cid, "flav": flav, "locale": loc, "path": [name], "args": args})
                        info[cid] = {"j": j + 1, "locale": loc, "flav": flav, "env": {v: to_syms(env[v]) for v in ("x", "y")}, "comps": comps}
        projects.append({"name": "c01p%d" % pi, "cfg": c["cfg"], "files": c["files"], "calls": calls})
        meta.append(info)
    return projects, meta


def run_l2(run, pcases, max_projects):
    import os
    import probe
    projects, meta = l2_projects(run, pcases, max_projects)
    results, log = probe.build_and_run(run, projects, tag="_c01")
    wd = os.path.join(run.workdir, "l2")
    os.makedirs(wd, exist_ok=True)
    trace, cases_abs = [], []
    for pi, p in enumerate(projects):
        r = results[p["name"]]
        cases_abs.append({"id": pi + 1, "abs": pcases[pi]["abs"]})
        if not r["built"]:
            run.violation("l2-build;" + vp.fingerprint(pcases[pi]["abs"]), "probe for a project of well-formed values does not compile",
                          {"project": p["name"], "build_log": r["build_log"]})
            continue
        seen = set()
        for ev in r["events"]:
            m = meta[pi][ev["call"]]
            seen.add(ev["call"])
            trace.append({"ev": "Render", "case": pi + 1, "j": m["j"], "locale": m["locale"], "flav": m["flav"], "env": m["env"],
                          "outcome": ev["outcome"], "out": probe.to_syms(_respell_tags(ev["out"], m.get("comps", [])))})
        if len(seen) != len(p["calls"]):
            raise vp.ToolError("probe %s printed %d of %d results (rc=%s, %s)" % (p["name"], len(seen), len(p["calls"]), r.get("rc"), r.get("stderr", "")[-300:]))
    trace.append({"ev": "End"})
    tpath, cpath = os.path.join(wd, "trace.ndjson"), os.path.join(wd, "cases.ndjson")
    vp.write_ndjson(tpath, trace)
    vp.write_ndjson(cpath, cases_abs)
    summary, rejects, _ = vp.trace_validate("Trace_Value", "Trace_Value.cfg", wd, tpath, cpath)
    if summary["consumed"] != summary["events"]:
        raise vp.ToolError("trace spec consumed %s of %s events" % (summary["consumed"], summary["events"]))
    run.traces += len(projects)
    run.events += summary["events"]
    for r in rejects:
        ev = trace[r["l"] - 1]
        a = pcases[ev["case"] - 1]["abs"]
        n = len(a["names"])
        ast = a["values"][ev["j"] - 1] if ev["locale"] == "en" else a["values"][n - ev["j"]]
        run.violation("l2;%s;%s;%s" % (ev["flav"], json.dumps(ast, sort_keys=True), sorted(r["tags"])[0].split(":")[0]),
                      "rendered text differs from the denotation: %s" % sorted(r["tags"])[0], {"event": ev, "ast": ast})
    return len(trace) - 1


def run_manyloc(run):
    """scale in the number of locales (EitherOf nesting of the per-locale arms, defaulted arms shared by many locales)"""
    import os
    import probe
    cases, _ = loadfam.gen_cases(run, "MC_ManyLoc", "MC_ManyLoc_%s.cfg" % run.tier, workers=1)
    c = cases[0]
    a = c["abs"]
    calls, info = [], {}
    env = {"x": "X1"}
    for li, loc in enumerate(a["locs"]):
        for key in ("m", "h"):
            for flav in ("td_string", "td_display", "td"):
                cid = len(calls) + 1
                calls.append({"id": cid, "flav": flav, "locale": loc, "path": [key], "args": [["var", "x", json.dumps(env["x"])], ["comp", "b", "b"]]})
                info[cid] = {"key": key, "li": li + 1, "flav": flav}
    project = {"name": "c01many", "cfg": c["cfg"], "files": c["files"], "calls": calls}
    results, log = probe.build_and_run(run, [project], tag="_c01many")
    r = results["c01many"]
    if not r["built"]:
        run.violation("l2-build;many-locales;%d" % len(a["locs"]), "a project with %d locales does not compile" % len(a["locs"]), {"build_log": r["build_log"] or log[-3000:]})
        return 0
    if len(r["events"]) != len(calls):
        raise vp.ToolError("c01many printed %d of %d results (rc=%s, %s)" % (len(r["events"]), len(calls), r.get("rc"), r.get("stderr", "")[-300:]))
    trace = [{"ev": "RenderMany", "case": 1, "key": info[ev["call"]]["key"], "li": info[ev["call"]]["li"], "flav": info[ev["call"]]["flav"],
              "env": {"x": probe.to_syms(env["x"]), "y": []}, "outcome": ev["outcome"], "out": probe.to_syms(ev["out"])} for ev in r["events"]]
    trace.append({"ev": "End"})
    wd = os.path.join(run.workdir, "l2many")
    os.makedirs(wd, exist_ok=True)
    tpath, cpath = os.path.join(wd, "trace.ndjson"), os.path.join(wd, "cases.ndjson")
    vp.write_ndjson(tpath, trace)
    vp.write_ndjson(cpath, [{"id": 1, "abs": a}])
    summary, rejects, _ = vp.trace_validate("Trace_Value", "Trace_Value.cfg", wd, tpath, cpath)
    if summary["consumed"] != summary["events"]:
        raise vp.ToolError("trace spec consumed %s of %s events" % (summary["consumed"], summary["events"]))
    run.traces += 1
    run.events += summary["events"]
    for rj in rejects:
        ev = trace[rj["l"] - 1]
        run.violation("l2;many-locales;%s;key=%s;locale-index=%d" % (ev["flav"], ev["key"], ev["li"]),
                      "rendered %r" % vp.text_of(ev["out"]), {"event": ev, "locales": len(a["locs"])})
    return len(trace) - 1


def _key(c, r):
    if c.get("mode") == "value":
        return "value:" + " ".join(c["s"]) + ";" + sorted(r["tags"])[0]
    return "project:" + vp.fingerprint(c["abs"]) + ";" + sorted(r["tags"])[0]


def check(run):
    quick = run.tier == "quick"
    cfg = "MC_Value_quick.cfg" if quick else "MC_Value_thorough.cfg"
    values, res = loadfam.gen_cases(run, "MC_Value", cfg, timeout=7200)
    if len(values) < 100:
        raise vp.ToolError("MC_Value produced too few values")
    scale = [v for v in values if v.get("scale")]
    values = [v for v in values if not v.get("scale")]
    vcases = value_cases(run, scale + values, 2 if quick else 12)
    # the scale family is its own project and always part of the L2 sample
    pcases = project_cases(run, scale, per_project=40) + project_cases(run, values if quick else values[:30000])
    run.samples = [{"ast": vcases[len(vcases) // 3]["abs"]["ast"], "spelling": vcases[len(vcases) // 3]["s"]},
                   {"ast": vcases[-1]["abs"]["ast"], "spelling": vcases[-1]["s"]}]
    loadfam.replay_load(run, vcases, "Trace_Value", "Trace_Value.cfg", build_features=("json", "quote"),
                        variant="json-quote", key_of=_key, tag="_values")
    loadfam.replay_load(run, pcases, "Trace_Value", "Trace_Value.cfg", build_features=("json", "quote"),
                        variant="json-quote", key_of=_key, tag="_projects")
    loadfam.replay_load(run, loadfam.namespaced(pcases[:40]), "Trace_Value", "Trace_Value.cfg", build_features=("json", "quote"),
                        variant="json-quote", key_of=lambda c, r: "namespaced;" + _key(c, r), tag="_ns")
    loadfam.replay_suppressed(run, pcases, "Trace_Value", "Trace_Value.cfg", _key)
    n_l2 = run_l2(run, pcases, 3 if quick else 40)
    run.notes["l2_render_events"] = n_l2
    run.notes["l2_many_locale_events"] = run_manyloc(run)
    run.exhaustive = True
    run.notes["values_generated"] = len(values)
    run.notes["spellings_replayed"] = len(vcases)
    run.assumptions = ["every value of the documented grammar with at most MaxTokens pieces / MaxDepth nesting over 2 text atoms, 2 variables, 2 component names (same-name nesting included)",
                       "optional whitespace (none, SP, SP SP, NBSP, TAB) at 7 positions: one position at a time and everywhere; a seeded sample of spellings per value in the quick tier",
                       "L1: tree, variables, components, string-table text per literal from the parser; L2: a sample of the packed projects is compiled with load_locales!() "
                       "and td_string! / td_display! / td! are executed for every key, locale and environment (one environment holds `{{ y }}<b>$t(a)` to show values are never re-parsed)"]
    return run.finish("all well-formed values within the bounds, each under several whitespace spellings, through ParsedValue::new and "
                      "through parse_locales (two-locale projects); non-trivial: values containing a variable or a component",
                      {"distinct_nontrivial": sum(1 for v in values if any(p["k"] != "text" for p in v["abs"]["ast"]))})


def replay(run, path):
    rp = json.load(open(path))["replay"]
    loadfam.replay_load(run, [rp["case"]], "Trace_Value", "Trace_Value.cfg", build_features=("json", "quote"),
                        variant="json-quote", keep_dirs=True)
    return run.finish("replay of one recorded case")
