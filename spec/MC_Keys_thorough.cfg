CONSTANTS
  DefTrees <- MCDefTrees
  LocTrees <- MCLocTrees
  K2 = {"abs", "null", "val"}
  S2 = {"abs", "null", "val"}
  Z = {"abs", "val"}
SPECIFICATION MCSpec
INVARIANTS WarnsExact ErrIffMismatch NoneForDefault EmitCases EmitNullCases EmitCrossCases
PROPERTY Termination
CHECK_DEADLOCK FALSE
