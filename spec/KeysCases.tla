----------------------------- MODULE KeysCases -----------------------------
(* Tree universe and project construction for C07, plus the expectations    *)
(* used by Trace_Keys.                                                       *)
EXTENDS KeysOps

LocSym == [en |-> <<"e","n">>, fr |-> <<"f","r">>, de |-> <<"d","e">>, es |-> <<"e","s">>]
KeySym == [k1 |-> <<"k","1">>, k2 |-> <<"k","2">>, x |-> <<"x">>, u |-> <<"u">>, g |-> <<"g">>,
           s1 |-> <<"s","1">>, s2 |-> <<"s","2">>, y |-> <<"y">>, h |-> <<"h">>, t |-> <<"t">>, z |-> <<"z">>]

RECURSIVE PathSyms(_)
PathSyms(p) == IF Len(p) = 1 THEN KeySym[p[1]] ELSE KeySym[p[1]] \o <<"DOT">> \o PathSyms(Tail(p))
TextOf(l, p) == LocSym[l] \o <<"COLON">> \o PathSyms(p)

Put(name, choice) ==
    IF choice = "abs" THEN EmptyTree
    ELSE IF choice = "null" THEN name :> Null
    ELSE name :> Val
PutG(name, choice, content) == IF choice = "group" THEN name :> Group(content) ELSE Put(name, choice)

Mk(k1, k2, x, g, s1, s2, y, h, t, z) ==
    Put("k1", k1) @@ Put("k2", k2) @@ PutG("x", x, "u" :> Val)
    @@ PutG("g", g, Put("s1", s1) @@ Put("s2", s2) @@ Put("y", y)
                     @@ PutG("h", h, Put("t", t) @@ Put("z", z)))

V3 == {"abs", "null", "val"}
V4 == {"abs", "null", "val", "group"}

\* K2, S2, Z: the value sets the corresponding choices range over (bounding knob)
Universe(K2, S2, Z) ==
    { Mk(k1, k2, x, g, s1, s2, y, h, t, z) :
        k1 \in V3, k2 \in K2, x \in V4, g \in V4, s1 \in V3, s2 \in S2, y \in {"abs", "val"},
        h \in V4, t \in V3, z \in Z }

DefaultTrees ==
    { Mk("val", "val", "abs", "group", "val", "val", "abs", "group", "val", "abs"),   \* full
      Mk("val", "val", "abs", "group", "val", "val", "abs", "abs", "abs", "abs"),     \* g without h
      Mk("val", "val", "abs", "abs", "abs", "abs", "abs", "abs", "abs", "abs"),       \* flat
      Mk("val", "abs", "abs", "val", "abs", "abs", "abs", "abs", "abs", "abs") }      \* g is a value

\* ---- files -----------------------------------------------------------------
RECURSIVE FileNode(_, _, _)
FileNode(l, tree, path) ==
    LET ks == SortedSeq(DOMAIN tree) IN
    MapNode([i \in DOMAIN ks |->
        LET k == ks[i]  n == tree[k] IN
        <<k, IF n.t = "null" THEN NullNode
             ELSE IF n.t = "val" THEN StrNode(TextOf(l, path \o <<k>>))
             ELSE FileNode(l, n.c, path \o <<k>>)>>])

\* en: default tree; fr: locale tree without inherits; de: same tree, `inherits = { de = "en" }`
CaseOf(d, t) ==
    [family |-> "keys",
     abs   |-> [def |-> d, loc |-> t],
     cfg   |-> [default |-> "en", locales |-> <<"en", "fr", "de">>, inherits |-> << <<"de", "en">> >>],
     files |-> << <<"en", FileNode("en", d, <<>>)>>, <<"fr", FileNode("fr", t, <<>>)>>,
                  <<"de", FileNode("de", t, <<>>)>> >>]

\* cross family: fr and de hold DIFFERENT trees (de still inherits en).  What is reported for one locale depends on the default
\* tree and on that locale's tree only - never on what another locale happens to contain.
CaseOf2(d, t1, t2) ==
    [family |-> "keys-cross",
     abs   |-> [def |-> d, loc |-> t1, loc2 |-> t2],
     cfg   |-> [default |-> "en", locales |-> <<"en", "fr", "de">>, inherits |-> << <<"de", "en">> >>],
     files |-> << <<"en", FileNode("en", d, <<>>)>>, <<"fr", FileNode("fr", t1, <<>>)>>,
                  <<"de", FileNode("de", t2, <<>>)>> >>]
CrossTrees == { Mk("val", "val", "abs", g, "val", "val", y, h, "val", z) : g \in {"abs", "null", "group"}, y \in {"abs", "val"},
                                                                          h \in {"abs", "null", "group"}, z \in {"abs", "val"} }
FullDefault == Mk("val", "val", "abs", "group", "val", "val", "abs", "group", "val", "abs")

\* default locale with an explicit null somewhere: must be rejected
NullDefaultCase(which) ==
    LET d == IF which = 1 THEN ("k1" :> Null) @@ ("k2" :> Val)
             ELSE ("k1" :> Val) @@ ("g" :> Group(("s1" :> Null) @@ ("s2" :> Val))) IN
    [family |-> "keys", abs |-> [def |-> d, loc |-> ("k1" :> Val)],
     cfg |-> [default |-> "en", locales |-> <<"en", "fr", "de">>, inherits |-> << <<"de", "en">> >>],
     files |-> << <<"en", FileNode("en", d, <<>>)>>, <<"fr", FileNode("fr", "k1" :> Val, <<>>)>>,
                  <<"de", FileNode("de", "k1" :> Val, <<>>)>> >>]

\* ---- expectations ------------------------------------------------------------
TextTree(s)  == [lit |-> "String", c |-> << [k |-> "text", s |-> s, tab |-> s] >>]
DefaultTree  == [lit |-> "none", c |-> << [k |-> "default"] >>]

\* shape of the accessible key tree = shape of the default tree
RECURSIVE ShapeOK(_, _)
ShapeOK(level, d) ==
    /\ DOMAIN level = DOMAIN d
    /\ \A k \in DOMAIN d :
         IF IsGroup(d[k]) THEN level[k].t = "sub" /\ ShapeOK(level[k].keys, d[k].c)
         ELSE level[k].t = "value"

RECURSIVE LevelAt(_, _)
LevelAt(level, p) == IF Len(p) = 1 THEN level[p[1]] ELSE LevelAt(level[p[1]].keys, Tail(p))
=============================================================================
