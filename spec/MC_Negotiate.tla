----------------------------- MODULE MC_Negotiate -----------------------------
EXTENDS Negotiate, Json

CONSTANTS MaxReq, MaxAvail
Toks == Names \cup {"bad"}
MCRequests == UNION { [1..k -> Toks] : k \in 0..MaxReq }
MCAvails == { a \in SUBSET Names : Cardinality(a) >= 1 /\ Cardinality(a) <= MaxAvail }
MCDefaults == {"en", "frFR"}

\* CASE: one per (default, avail);  REQ: one per request list
EmitCases == (i = 1 /\ pass = "exact" /\ supported = <<>> /\ req = <<>>) =>
                 PrintT(<<"CASE", ToJson([family |-> "negotiate", abs |-> [avail |-> remaining, default |-> default],
                                          tags |-> [j \in 1..Len(remaining) |-> Tag[remaining[j]]]])>>)
EmitReqs == (i = 1 /\ pass = "exact" /\ supported = <<>> /\ avail = {"en"} /\ default = "en") =>
                 PrintT(<<"REQ", ToJson([req |-> req, tags |-> [j \in DOMAIN req |-> Tag[req[j]]]])>>)
MCSpec == Init /\ [][Next]_vars /\ WF_vars(Next)
=============================================================================
