CONSTANTS Projects <- QuickProjects
SPECIFICATION MCSpec
INVARIANTS ExactlyNeeds NeverTooMuch EmitCases
PROPERTY Termination
CHECK_DEADLOCK FALSE
