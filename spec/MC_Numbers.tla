----------------------------- MODULE MC_Numbers -----------------------------
(* Checks the number model's own statements and emits its projects.          *)
EXTENDS Numbers
VARIABLE i
ASSUME ReadBack
ASSUME CanonShape
ASSUME CanonInjective
Init == i = 0
Next == i = 0 /\ i' = 1 /\ LET A == NumberCases IN \A j \in DOMAIN A : PrintT(<<"CASE", ToJson(A[j])>>)
Spec == Init /\ [][Next]_i
=============================================================================
