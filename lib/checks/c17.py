"""C17  Server-embedded translations survive embedding into the page."""
import json
import os
import random
import re
import shutil

import vp
import probe
from checks import loadfam

EMB_FEATURES = ['"json_files"', '"icu_compiled_data"', '"cookie"', '"ssr"', '"dynamic_load"', '"track_locale_files"', '"plurals"']

MAIN = r'''#![allow(warnings)]
leptos_i18n::load_locales!();
use i18n::*;
use leptos::prelude::*;

fn esc(s: &str) -> String {
    let mut o = String::new();
    for c in s.chars() {
        match c {
            '"' => o.push_str("\\\""),
            '\\' => o.push_str("\\\\"),
            c if (c as u32) < 0x20 => o.push_str(&format!("\\u{:04x}", c as u32)),
            c => o.push(c),
        }
    }
    o
}

fn emit(id: usize, f: impl FnOnce() -> String) {
    let r = std::panic::catch_unwind(std::panic::AssertUnwindSafe(f));
    any_spawner::Executor::poll_local();
    match r {
        Ok(s) => println!("{{\"variant\":{},\"outcome\":\"Ok\",\"html\":\"{}\"}}", id, esc(&s)),
        Err(e) => {
            let msg = if let Some(s) = e.downcast_ref::<&str>() { s.to_string() } else if let Some(s) = e.downcast_ref::<String>() { s.clone() } else { "panic".to_string() };
            println!("{{\"variant\":{},\"outcome\":\"Panic\",\"html\":\"{}\"}}", id, esc(&msg))
        }
    }
}

// a SECOND, unrelated set of translations in the same process (as a widget crate with its own i18n would bring): its pages are
// rendered first; what the pages of the main module embed must not be influenced by it
mod other {
    leptos_i18n::declare_locales! {
        path: leptos_i18n,
        default: "en",
        locales: ["en", "fr"],
        en: { k0001: "OTHER MODULE (en)", z: "other z en" },
        fr: { k0001: "OTHER MODULE (fr)", z: "other z fr" },
    }
}
fn other_module_pages() -> String {
    use other::i18n as o;
    let owner = Owner::new();
    let out = owner.with(|| {
        let v = view! { <o::I18nContextProvider enable_cookie=false ssr_lang_header_getter=leptos_i18n::context::UseLocalesOptions::default().ssr_lang_header_getter(|| None)>
            {move || { let i18n = o::use_i18n(); let mut views: Vec<AnyView> = vec![];
                views.push((leptos_i18n::t!(i18n, k0001))().into_any());
                views.push(leptos_i18n::td!(o::Locale::fr, z).into_any());
                views }}
        </o::I18nContextProvider> };
        v.to_html()
    });
    std::mem::forget(owner);
    out
}

__VARIANTS__
__STEXEC__

fn main() {
    std::panic::set_hook(Box::new(|info| {
        // the thread and a backtrace go to stderr (recorded with the event when a render panics)
        eprintln!("PANIC thread={:?} {}\n{}", std::thread::current().name(), info, std::backtrace::Backtrace::force_capture());
    }));
    st_exec::init();
    emit(9999, other_module_pages);
__CALLS__
}
'''


def S(syms):
    return {"t": "str", "s": syms}


def make_project(name, strings, namespaces):
    n = len(strings)
    keys = ["k%04d" % (j + 1) for j in range(n)]
    en = {"t": "map", "e": [[keys[j], S(strings[j])] for j in range(n)]}
    fr = {"t": "map", "e": [[keys[j], S(strings[n - 1 - j])] for j in range(n)]}
    if namespaces:
        small_en = {"t": "map", "e": [["z", S(strings[0])], ["y", S(["n", "2", "e"])]]}
        small_fr = {"t": "map", "e": [["z", S(strings[-1])], ["y", S(["n", "2", "f"])]]}
        # a namespace without any literal text: its string table is EMPTY in every locale (a unit with no strings is still a unit,
        # and must not disturb the units listed after it)
        VARX = ["LB", "LB", "SP", "x", "SP", "RB", "RB"]
        empty = {"t": "map", "e": [["v", S(VARX)], ["w", S(["LT", "b", "GT"] + VARX + ["LT", "SL", "b", "GT"])]]}
        files = [["en/zz", en], ["fr/zz", fr], ["en/aa", small_en], ["fr/aa", small_fr], ["en/vv", empty], ["fr/vv", empty]]
        cfg = {"default": "en", "locales": ["en", "fr"], "namespaces": ["zz", "aa", "vv"]}
        units = [("en", "zz"), ("en", "vv"), ("fr", "zz"), ("en", "aa"), ("fr", "vv"), ("fr", "aa")]
        key_of_unit = {"zz": "zz.k0001", "aa": "aa.z", "vv": 'vv.v, x = "a"'}
    else:
        files = [["en", en], ["fr", fr]]
        cfg = {"default": "en", "locales": ["en", "fr"]}
        units = [("en", "none"), ("fr", "none")]
        key_of_unit = {"none": "k0001"}
    # touch lists: nothing, each unit alone, all units, a unit twice, interleaved
    variants = [[]] + [[u] for u in units] + [units, [units[0], units[0]], list(reversed(units)) + [units[0]]]
    fns, calls = [], []
    for vi, touches in enumerate(variants):
        # every render has its own reactive owner, as every request has on a server; the owners are kept until the process ends:
        # work that a render leaves behind must not find its signals disposed when the NEXT render of this process polls the executor
        # (seen as a sporadic "reactive value ... has already been disposed" panic under load - interference between the renders of
        # one probe process, not a property of one render)
        body = ["fn variant_%d() -> String {" % vi, "    let owner = Owner::new();", "    let out = owner.with(|| {",
                "        let v = view! { <I18nContextProvider enable_cookie=false ssr_lang_header_getter=leptos_i18n::context::UseLocalesOptions::default().ssr_lang_header_getter(|| None)>",
                "            {move || { let i18n = use_i18n(); let mut views: Vec<AnyView> = vec![];"]
        for loc, ns in touches:
            # (the default locale through the context, the other one with an explicit locale: writing the context's locale signal in the
            # middle of a render races with the library's own isomorphic effect that reads it on an executor thread - reactive_graph
            # then reports the failed non-blocking write as "already disposed")
            if loc == "en":
                body.append("                views.push((t!(i18n, %s))().into_any());" % key_of_unit[ns])
            else:
                body.append("                views.push(td!(Locale::%s, %s).into_any());" % (loc, key_of_unit[ns]))
        body += ["                views }}", "        </I18nContextProvider> };", "        v.to_html()", "    });", "    std::mem::forget(owner);", "    out", "}"]
        fns.append("\n".join(body))
        calls.append("    emit(%d, variant_%d);" % (vi, vi))
    main = MAIN.replace("__VARIANTS__", "\n\n".join(fns)).replace("__CALLS__", "\n".join(calls)).replace("__STEXEC__", probe.ST_EXEC)
    return {"name": name, "cfg": cfg, "files": files, "main": main, "variants": variants,
            "abs": {"strings": strings, "namespaces": namespaces}}


def extract(html):
    """the script element as a browser's HTML parser sees it: from <script> to the FIRST </script"""
    m = re.search(r"<script[^>]*>", html)
    if not m:
        return None
    rest = html[m.end():]
    end = re.search(r"</script", rest, re.I)
    return rest[:end.start()] if end else rest


def check(run):
    quick = run.tier == "quick"
    rng = random.Random(run.seed)
    res = vp.tlc("MC_Embed", "MC_Embed_strings.cfg" if quick else "MC_Embed_strings_thorough.cfg", run.workdir, workers=8, timeout=3600)
    vp.tlc_ok(res, "MC_Embed strings")
    run.add_mc("MC_Embed/strings (escaping transducer)", res)
    res2 = vp.tlc("MC_Embed", "MC_Embed_units.cfg", run.workdir, workers=4)
    vp.tlc_ok(res2, "MC_Embed units")
    run.add_mc("MC_Embed/units (touch in any order, emit)", res2)
    strings = [json.loads(c)["s"] for c in sorted(set(res["tagged"].get("CASE", [])))]
    strings = [s for s in strings if s]
    specials = [["LT", "SL"] + list("script") + ["GT"], ["LT", "BANG", "DASH", "DASH"], ["RSB", "RSB", "GT"], ["E1", "NBSP", "ZW"], ["CTRL1"], ["TAB", "CR"]]
    rng.shuffle(strings)
    if quick:
        strings = strings[:240]
    strings = specials + strings
    per = 60
    projects = []
    for i in range(0, len(strings), per):
        chunk = strings[i:i + per]
        if len(chunk) >= 2:
            projects.append(make_project("c17p%d" % len(projects), chunk, namespaces=(len(projects) % 2 == 1)))
    # L1 tables from the parser
    lcases = [{"family": "embed", "abs": p["abs"], "cfg": p["cfg"], "files": p["files"]} for p in projects]
    wd = os.path.join(run.workdir, "embed")
    shutil.rmtree(wd, ignore_errors=True)
    os.makedirs(wd)
    rows = []
    for i, c in enumerate(lcases):
        d = os.path.join(wd, "p%05d" % (i + 1))
        vp.materialise(c, d)
        rows.append({"case": i + 1, "mode": "load", "dir": d, "skip_icu": False})
    drv_in = os.path.join(wd, "drv_in.ndjson")
    vp.write_ndjson(drv_in, rows)
    load_trace = os.path.join(wd, "load_trace.ndjson")
    vp.run_driver(vp.cargo_build("drv_parser", ("json", "quote"), variant="json-quote"), drv_in, load_trace, len(rows))
    # probes with dynamic_load + ssr
    saved = probe.FEATURES
    probe.FEATURES = EMB_FEATURES
    try:
        results, log = probe.build_and_run(run, projects, tag="_c17")
    finally:
        probe.FEATURES = saved
    trace = []
    for pi, p in enumerate(projects):
        r = results[p["name"]]
        if not r["built"]:
            run.violation("build;" + p["name"], "the dynamic_load + ssr probe does not compile", {"build_log": r["build_log"] or log[-3000:]})
            continue
        for ev in r["events"]:
            if ev["variant"] == 9999:        # the other module's pages (rendered first, not examined themselves)
                if ev["outcome"] != "Ok":
                    raise vp.ToolError("the second i18n module of the probe did not render: %s" % ev.get("html", "")[:300])
                continue
            touched = [[loc, ns] for loc, ns in p["variants"][ev["variant"]]]
            base = {"ev": "Script", "case": pi + 1, "variant": ev["variant"], "touched": touched, "outcome": ev["outcome"]}
            if ev["outcome"] != "Ok":
                base["panic"] = ev.get("html", "")[:300]
                base["stderr"] = r.get("stderr", "")[-6000:]
                trace.append(base)
                continue
            html = ev["html"]
            script = extract(html)
            base["hasCloseTag"] = len(re.findall(r"</script", html, re.I)) != 1
            base["hasComment"] = script is not None and "<!--" in script
            decoded = None
            if script is not None:
                m = re.match(r"^\s*window\.__LEPTOS_I18N_TRANSLATIONS\s*=\s*(.*);\s*$", script, re.S)
                if m:
                    try:
                        decoded = json.loads(m.group(1))
                    except Exception:
                        decoded = None
            base["isJson"] = decoded is not None
            base["decoded"] = [{"locale": d["locale"], "id": d["id"] if d["id"] is not None else "none",
                                "values": [probe.to_syms(v) for v in d["values"]]} for d in decoded] if decoded is not None else []
            base["raw"] = (script or "")[:300]
            trace.append(base)
    trace.append({"ev": "End"})
    tpath = os.path.join(wd, "trace.ndjson")
    vp.write_ndjson(tpath, trace)
    cpath = os.path.join(wd, "cases.ndjson")
    vp.write_ndjson(cpath, [{"id": i + 1} for i in range(len(projects))])
    summary, rejects, _ = vp.trace_validate("Trace_Embed", "Trace_Embed.cfg", wd, tpath, cpath, env={"LOADTRACE": load_trace})
    if summary["consumed"] != summary["events"]:
        raise vp.ToolError("trace spec consumed %s of %s events" % (summary["consumed"], summary["events"]))
    run.traces += len(projects)
    run.events += summary["events"]
    run.cases += len(projects)
    for r in rejects:
        ev = trace[r["l"] - 1]
        chars = sorted({s for v in projects[ev["case"] - 1]["abs"]["strings"] for s in v if len(s) > 1})
        run.violation("embed;%s;touched=%s;chars=%s" % (",".join(sorted(r["tags"])), json.dumps(ev["touched"]), ",".join(chars)),
                      "script of variant %d: %s" % (ev["variant"], sorted(r["tags"])), {"event": ev, "project": projects[ev["case"] - 1]["name"]})
    run.samples = [{"strings": projects[0]["abs"]["strings"][:6], "touch_variants": projects[0]["variants"]}]
    run.exhaustive = not quick
    run.notes["strings"] = len(strings)
    run.assumptions = ["strings of <= 3 (quick) / 4 (thorough) characters over {a, quote, backslash, newline, <, /, !, U+2028, U+1F600} plus `</script>`, `<!--`, `]]>`, non-ASCII and control characters; ~60 per project (seeded sample in the quick tier)",
                       "every project is rendered with 7 touch lists (no unit, each unit alone, all, one twice, interleaved); every second project uses namespaces",
                       "the script is extracted the way an HTML parser would (up to the first `</script`) and decoded as JSON; node is not used",
                       "only the server side (dynamic_load + ssr); the client's init_translations needs a browser"]
    return run.finish("every string of the bounded alphabet as a translation value, rendered through <I18nContextProvider> under several touch lists; "
                      "non-trivial: every (project, touch list) with at least one unit", {"distinct_nontrivial": len(trace) - 1})


def replay(run, path):
    raise vp.ToolError("replay: re-run `bin/check C17`; the touch list and the raw script are in the replay file")
