------------------------------- MODULE FkPaths -------------------------------
(* C06 over STRUCTURE: `$t(path)` with paths of one, two and three segments    *)
(* into nested subkey groups, where the same key names also exist at other      *)
(* levels (a.b.c, a.c, b.c and c are four different keys).  A reference renders *)
(* what the key AT THAT PATH renders, in the same locale.                       *)
EXTENDS Common

Locs == <<"en", "fr">>
Tag == [en |-> <<"E">>, fr |-> <<"F">>]

T(s) == [k |-> "text", s |-> s]
R(p) == [k |-> "ref", p |-> p]

\* leaf path -> pieces (every text carries the locale's tag and the path, so that a wrong target shows)
Leaves(x) ==
  ( <<"a", "b", "c">> :> << T(Tag[x] \o <<"a","b","c">>) >> ) @@
  ( <<"a", "b", "d">> :> << R(<<"a","b","c">>), T(<<"SP","t","a","i","l">>) >> ) @@      \* a reference from inside the same group
  ( <<"a", "c">>      :> << T(Tag[x] \o <<"a","c">>) >> ) @@
  ( <<"b", "c">>      :> << T(Tag[x] \o <<"b","c">>) >> ) @@
  ( <<"c">>           :> << T(Tag[x] \o <<"c">>) >> ) @@
  ( <<"r1">>          :> << R(<<"c">>) >> ) @@
  ( <<"r2">>          :> << R(<<"b","c">>) >> ) @@
  ( <<"r3">>          :> << R(<<"a","b","c">>) >> ) @@
  ( <<"r4">>          :> << R(<<"a","c">>), T(<<"SP">>), R(<<"a","b","d">>) >> ) @@          \* two references, one of them through a chain
  ( <<"b", "r">>      :> << T(<<"i","n","SP">>), R(<<"a","b","c">>) >> )                     \* a reference written inside another group

RECURSIVE Join(_)
Join(p) == IF Len(p) = 1 THEN <<p[1]>> ELSE <<p[1], "DOT">> \o Join(Tail(p))
RECURSIVE UnparseP(_)
UnparseP(v) == IF v = <<>> THEN <<>>
               ELSE (IF Head(v).k = "text" THEN Head(v).s ELSE <<"DOL", "t", "LP">> \o Join(Head(v).p) \o <<"RP">>) \o UnparseP(Tail(v))
RECURSIVE Denote(_, _)
Denote(x, v) == IF v = <<>> THEN <<>>
                ELSE (IF Head(v).k = "text" THEN Head(v).s ELSE Denote(x, Leaves(x)[Head(v).p])) \o Denote(x, Tail(v))

\* the nested file: a path that is a leaf becomes a string, every proper prefix a map
Nexts(x, prefix) == { p[Len(prefix) + 1] : p \in { q \in DOMAIN Leaves(x) : Len(q) > Len(prefix) /\ SubSeq(q, 1, Len(prefix)) = prefix } }
RECURSIVE NodeAt(_, _)
NodeAt(x, prefix) == IF prefix \in DOMAIN Leaves(x) THEN StrNode(UnparseP(Leaves(x)[prefix]))
                     ELSE LET ns == SortedSeq(Nexts(x, prefix)) IN MapNode([j \in DOMAIN ns |-> <<ns[j], NodeAt(x, Append(prefix, ns[j]))>>])
Case == [family |-> "fk-paths", abs |-> [locs |-> Locs],
         cfg |-> [default |-> "en", locales |-> Locs],
         files |-> [j \in DOMAIN Locs |-> <<Locs[j], NodeAt(Locs[j], <<>>)>>]]
=============================================================================
