CONSTANTS
  Graphs <- MCGraphs
  PopulateEntersResolved = TRUE
  FullArgs = TRUE
SPECIFICATION MCSpec
INVARIANTS ErrorIffUnresolvable FinalIsSubst EmitCases
PROPERTY Termination
CHECK_DEADLOCK FALSE
