---------------------------- MODULE MC_Fallback ----------------------------
EXTENDS Fallback, FallbackCases, Json

MCInit == Init(InhMaps, [NonDef -> P3])

LSeq == SortedSeq(NonDef)
AllDef == [l \in NonDef |-> "def"]

\* one CASE line per inherits map (printed from the initial state whose key is defined everywhere)
EmitCases ==
    (todo = NonDef /\ pres = AllDef) => PrintT(<<"CASE", ToJson(CaseOf(inh, Def, LSeq))>>)

MCSpec == MCInit /\ [][Next]_vars /\ WF_vars(Next)
=============================================================================
