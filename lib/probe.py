"""L2 probes: generated Cargo packages that call `leptos_i18n::load_locales!()` on a TLC-generated project and
execute one macro call per case (td_string!, td_display!, td!, t!-family on a real context, ...), printing one JSON
line per call.  The probe only logs; expected values live in the TLA+ trace specifications.

A probe project: {"name", "cfg", "files", "calls": [call], "fmt"?}
A call: {"id": int, "flav": str, "locale": str, "path": [key...], "args": [[kind, name, rust_expr]...], ...}
"""
import json
import os
import shutil
import subprocess
import time

import vp

FEATURES = ['"json_files"', '"icu_compiled_data"', '"cookie"', '"ssr"', '"interpolate_display"', '"track_locale_files"',
            '"plurals"', '"format_datetime"', '"format_nums"', '"format_list"', '"format_currency"']

ST_EXEC = r'''
// A single-threaded executor: everything the reactive system spawns (effects, also the "isomorphic" ones) runs on this thread,
// and only when the executor is polled.  The harness replays SEQUENTIAL behaviours; with a thread pool an effect of the library can
// read a signal at the very moment the next step writes it, and reactive_graph (which takes its locks without blocking) then
// reports a signal as "disposed" - a race of the harness' own making.
mod st_exec {
    use futures::executor::{LocalPool, LocalSpawner};
    use futures::task::LocalSpawnExt;
    use std::cell::RefCell;
    thread_local! {
        static POOL: RefCell<LocalPool> = RefCell::new(LocalPool::new());
        static SPAWNER: LocalSpawner = POOL.with(|p| p.borrow().spawner());
    }
    pub struct SingleThread;
    impl any_spawner::CustomExecutor for SingleThread {
        fn spawn(&self, fut: any_spawner::PinnedFuture<()>) {
            SPAWNER.with(|s| s.spawn_local(fut).expect("spawn"));
        }
        fn spawn_local(&self, fut: any_spawner::PinnedLocalFuture<()>) {
            SPAWNER.with(|s| s.spawn_local(fut).expect("spawn_local"));
        }
        fn poll_local(&self) {
            POOL.with(|p| {
                if let Ok(mut p) = p.try_borrow_mut() {
                    p.run_until_stalled();
                }
            });
        }
    }
    pub fn init() {
        let _ = any_spawner::Executor::init_custom_executor(SingleThread);
    }
}
'''

MAIN_PRELUDE = r'''#![allow(warnings)]
leptos_i18n::load_locales!();
use i18n::*;
use leptos::prelude::*;
use leptos_i18n::Locale as _;

fn render<V: IntoView>(v: V) -> String {
    let html = v.into_view().to_html();
    // drop the comment / marker nodes the renderer puts around dynamic text
    let mut out = String::new();
    let mut rest = html.as_str();
    while let Some(i) = rest.find("<!") {
        out.push_str(&rest[..i]);
        match rest[i..].find('>') {
            Some(j) => rest = &rest[i + j + 1..],
            None => rest = "",
        }
    }
    out.push_str(rest);
    out.replace("&amp;", "&").replace("&lt;", "<").replace("&gt;", ">")
}

fn esc(s: &str) -> String {
    let mut o = String::new();
    for c in s.chars() {
        match c {
            '"' => o.push_str("\\\""),
            '\\' => o.push_str("\\\\"),
            c if (c as u32) < 0x20 => o.push_str(&format!("\\u{:04x}", c as u32)),
            c => o.push(c),
        }
    }
    o
}

fn emit(id: usize, f: impl FnOnce() -> String) {
    let r = std::panic::catch_unwind(std::panic::AssertUnwindSafe(f));
    any_spawner::Executor::poll_local();
    match r {
        Ok(s) => println!("{{\"call\":{},\"outcome\":\"Ok\",\"out\":\"{}\"}}", id, esc(&s)),
        Err(e) => {
            let msg = if let Some(s) = e.downcast_ref::<&str>() { s.to_string() } else if let Some(s) = e.downcast_ref::<String>() { s.clone() } else { "panic".to_string() };
            println!("{{\"call\":{},\"outcome\":\"Panic\",\"out\":\"{}\"}}", id, esc(&msg));
        }
    }
}
'''


def rust_locale(name):
    return "Locale::" + name.replace("-", "_")


def comp_expr(expr, view, variant):
    """the documented ways of supplying a component that renders as <expr>children</expr> (rotated by call id)"""
    if view:
        forms = ["<%s/>" % expr,
                 "|children: leptos::children::ChildrenFn| leptos::view! { <%s>{children()}</%s> }" % (expr, expr)]
    else:
        forms = ['"%s"' % expr,
                 'String::from("%s")' % expr,
                 'leptos_i18n::display::DisplayComp::new("%s", &[])' % expr,
                 '|f: &mut core::fmt::Formatter, ch: &dyn Fn(&mut core::fmt::Formatter) -> core::fmt::Result| { write!(f, "<%s>")?; ch(f)?; write!(f, "</%s>") }' % (expr, expr)]
    return forms[variant % len(forms)]


def call_args(args, view, variant=0):
    out = []
    for n, (kind, name, expr) in enumerate(args):
        if kind == "comp":
            out.append("<%s> = %s" % (name, comp_expr(expr, view, variant + n)))
        else:
            out.append("%s = %s" % (name, expr))
    return "".join(", " + a for a in out)


def call_source(c):
    """Rust statement(s) for one call."""
    flav = c["flav"]
    i = c["id"]
    if flav == "raw":
        return "    emit(%d, || { %s });" % (i, c["rust"])
    path = ".".join(c["path"])
    loc = rust_locale(c["locale"])
    if flav in ("td_string", "td_display"):
        return "    emit(%d, || %s!(%s, %s%s).to_string());" % (i, flav, loc, path, call_args(c["args"], False, c["id"]))
    if flav == "td":
        return "    emit(%d, || render(%s!(%s, %s%s)));" % (i, flav, loc, path, call_args(c["args"], True, c["id"]))
    if flav in ("t_string", "t_display", "tu_string", "tu_display"):
        return "    emit(%d, || { CTX.with(|c| c.get()).unwrap().set_locale(%s); %s!(CTX.with(|c| c.get()).unwrap(), %s%s).to_string() });" % (
            i, loc, flav, path, call_args(c["args"], False, c["id"]))
    if flav in ("t", "tu"):
        return "    emit(%d, || { CTX.with(|c| c.get()).unwrap().set_locale(%s); render(%s!(CTX.with(|c| c.get()).unwrap(), %s%s)) });" % (
            i, loc, flav, path, call_args(c["args"], True, c["id"]))
    if flav == "raw":
        return "    emit(%d, || { %s });" % (i, c["rust"])
    raise vp.ToolError("unknown flavour %s" % flav)


def main_source(project):
    lines = [MAIN_PRELUDE]
    if project.get("needs_ctx"):
        lines.append("thread_local! { static CTX: std::cell::Cell<Option<leptos_i18n::I18nContext<Locale>>> = const { std::cell::Cell::new(None) }; }\n")
    lines.append(project.get("extra_items", ""))
    if project.get("needs_ctx"):
        lines.append(ST_EXEC)
    lines.append("fn main() {\n    std::panic::set_hook(Box::new(|_| {}));\n")
    if project.get("needs_ctx"):
        lines.append("    st_exec::init();\n    let owner = Owner::new();\n    owner.set();\n"
                     "    let opts = leptos_i18n::context::I18nContextOptions::<Locale>::default().enable_cookie(false)"
                     ".ssr_lang_header_getter(leptos_i18n::context::UseLocalesOptions::default().ssr_lang_header_getter(|| None));\n"
                     "    let ctx = leptos_i18n::context::init_i18n_context_with_options::<Locale>(opts);\n    CTX.with(|c| c.set(Some(ctx)));\n")
    # chunk the calls into functions so that rustc does not have to type-check one enormous body
    calls = project["calls"]
    chunk = 150
    fns = []
    for k in range(0, len(calls), chunk):
        fns.append("fn calls_%d() {\n%s\n}\n" % (k // chunk, "\n".join(call_source(c) for c in calls[k:k + chunk])))
        lines.append("    calls_%d();\n" % (k // chunk))
    lines.append("}\n")
    return "".join(lines) + "\n" + "\n".join(fns)


def cargo_toml(name, cfg):
    return ('[package]\nname = "%s"\nversion = "0.0.0"\nedition = "2021"\n\n[dependencies]\n'
            'leptos = { version = "0.7.7", features = ["ssr"] }\n'
            'leptos_i18n = { path = "%s/leptos_i18n", default-features = false, features = [%s] }\n'
            'any_spawner = { version = "0.2", features = ["futures-executor"] }\n'
            'serde_json = "1"\nfutures = "0.3"\n\n' % (name, vp.REPO, ", ".join(FEATURES))
            ) + "[package.metadata.leptos-i18n]" + vp.manifest_text(cfg).split("[package.metadata.leptos-i18n]")[1]


def build_and_run(run, projects, tag="", timeout=3000, expect_fail=False):
    """Writes a workspace with one package per project, builds it, runs every binary.
    Returns {project name: {"built": bool, "stderr": str, "events": [..]}}."""
    root = os.path.join(run.workdir, "probes" + tag)
    shutil.rmtree(root, ignore_errors=True)
    os.makedirs(root)
    names = []
    for p in projects:
        d = os.path.join(root, p["name"])
        case = {"cfg": p["cfg"], "files": p["files"]}
        vp.materialise(case, d)
        with open(os.path.join(d, "Cargo.toml"), "w", encoding="utf8") as f:
            f.write(cargo_toml(p["name"], p["cfg"]))
        os.makedirs(os.path.join(d, "src"), exist_ok=True)
        with open(os.path.join(d, "src", "main.rs"), "w", encoding="utf8") as f:
            f.write(p.get("main") or main_source(p))
        names.append(p["name"])
    with open(os.path.join(root, "Cargo.toml"), "w") as f:
        f.write('[workspace]\nresolver = "2"\nmembers = [%s]\n\n[profile.dev]\ndebug = 0\nopt-level = 1\n' % ", ".join('"%s"' % n for n in names))
    shutil.copy(os.path.join(vp.HARNESS, "Cargo.lock"), os.path.join(root, "Cargo.lock"))
    env = dict(os.environ)
    env["CARGO_TARGET_DIR"] = os.path.join(vp.HARNESS, "target")
    env["CARGO_NET_OFFLINE"] = "true"
    t0 = time.time()
    p = subprocess.run(["cargo", "build", "--offline", "--keep-going", "--message-format", "short"], cwd=root, env=env,
                       stdout=subprocess.PIPE, stderr=subprocess.STDOUT, text=True, errors="replace", timeout=timeout)
    vp.log("probe build (%d packages) in %.1fs rc=%d" % (len(names), time.time() - t0, p.returncode))
    results = {}
    for n in names:
        exe = os.path.join(vp.HARNESS, "target", "debug", n)
        # a package failed to build iff cargo printed an error for it
        failed = ("could not compile `%s`" % n) in p.stdout
        res = {"built": not failed, "build_log": "", "events": []}
        if failed:
            res["build_log"] = "\n".join(l for l in p.stdout.splitlines() if ("/%s/" % n) in l or n in l)[-4000:]
        else:
            try:
                q = subprocess.run([exe], stdout=subprocess.PIPE, stderr=subprocess.PIPE, text=True, errors="replace", timeout=600)
                for line in q.stdout.split("\n"):
                    line = line.strip()
                    if line.startswith("{"):
                        try:
                            res["events"].append(json.loads(line))
                        except Exception:
                            pass
                res["rc"] = q.returncode
                res["stderr"] = q.stderr[-8000:]
            except subprocess.TimeoutExpired:
                res["rc"] = 124
                res["stderr"] = "timeout"
        results[n] = res
    if p.returncode != 0 and not expect_fail and not any(not r["built"] for r in results.values()):
        raise vp.ToolError("probe workspace failed to build:\n" + p.stdout[-4000:])
    return results, p.stdout


SYM_OF = {v: k for k, v in vp.LEX.items()}


def to_syms(text):
    return [SYM_OF.get(c, "U+%04X" % ord(c)) for c in text]


def negative_bins(run, libs, tag="", timeout=3000):
    """libs: [{"name", "cfg", "files", "bins": [{"name", "body", "expect": "ok"|"fail"}]}]
    Each lib becomes a package `<name>` exporting the generated `i18n` module and a package `<name>_bins` with one [[bin]] per
    entry.  Everything is built with --keep-going; returns {lib name: {"lib_built": bool, "bins": {bin name: "ok"|"fail"}, "log": str}}."""
    root = os.path.join(run.workdir, "negs" + tag)
    shutil.rmtree(root, ignore_errors=True)
    os.makedirs(root)
    members = []
    for lib in libs:
        d = os.path.join(root, lib["name"])
        vp.materialise({"cfg": lib["cfg"], "files": lib["files"]}, d)
        with open(os.path.join(d, "Cargo.toml"), "w", encoding="utf8") as f:
            f.write(cargo_toml(lib["name"], lib["cfg"]))
        os.makedirs(os.path.join(d, "src"), exist_ok=True)
        with open(os.path.join(d, "src", "lib.rs"), "w") as f:
            f.write("#![allow(warnings)]\nleptos_i18n::load_locales!();\n")
        bd = os.path.join(root, lib["name"] + "_bins")
        os.makedirs(os.path.join(bd, "src", "bin"))
        with open(os.path.join(bd, "Cargo.toml"), "w") as f:
            f.write('[package]\nname = "%s_bins"\nversion = "0.0.0"\nedition = "2021"\n\n[dependencies]\n%s = { path = "../%s" }\n'
                    'leptos = { version = "0.7.7", features = ["ssr"] }\n'
                    'leptos_i18n = { path = "%s/leptos_i18n", default-features = false, features = [%s] }\n' % (
                        lib["name"], lib["name"], lib["name"], vp.REPO, ", ".join(FEATURES)))
        for b in lib["bins"]:
            with open(os.path.join(bd, "src", "bin", b["name"] + ".rs"), "w", encoding="utf8") as f:
                f.write("#![allow(warnings)]\nuse %s::i18n::*;\nuse leptos::prelude::*;\nfn main() {\n%s\n}\n" % (lib["name"], b["body"]))
        members += [lib["name"], lib["name"] + "_bins"]
    with open(os.path.join(root, "Cargo.toml"), "w") as f:
        f.write('[workspace]\nresolver = "2"\nmembers = [%s]\n\n[profile.dev]\ndebug = 0\nopt-level = 1\n' % ", ".join('"%s"' % n for n in members))
    shutil.copy(os.path.join(vp.HARNESS, "Cargo.lock"), os.path.join(root, "Cargo.lock"))
    env = dict(os.environ)
    env["CARGO_TARGET_DIR"] = os.path.join(vp.HARNESS, "target")
    env["CARGO_NET_OFFLINE"] = "true"
    t0 = time.time()
    p = subprocess.run(["cargo", "build", "--offline", "--keep-going", "--message-format", "short"], cwd=root, env=env,
                       stdout=subprocess.PIPE, stderr=subprocess.STDOUT, text=True, errors="replace", timeout=timeout)
    vp.log("negative bins build (%d packages) in %.1fs rc=%d" % (len(members), time.time() - t0, p.returncode))
    out = {}
    for lib in libs:
        lib_failed = ("could not compile `%s` (lib)" % lib["name"]) in p.stdout
        bins = {}
        for b in lib["bins"]:
            failed = ('could not compile `%s_bins` (bin "%s")' % (lib["name"], b["name"])) in p.stdout
            bins[b["name"]] = "fail" if (failed or lib_failed) else "ok"
        out[lib["name"]] = {"lib_built": not lib_failed, "bins": bins,
                            "log": "\n".join(l for l in p.stdout.splitlines() if (lib["name"] + "_bins/") in l or (lib["name"] + "/") in l or ("`%s`" % lib["name"]) in l)[-3000:]}
    return out
