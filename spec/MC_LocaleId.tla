----------------------------- MODULE MC_LocaleId -----------------------------
EXTENDS LocaleId, Json
MCSetNames == DOMAIN Sets
Probes(s) == SortedSeq({ Mutate(op, Sets[s][i]) : op \in MutOps, i \in DOMAIN Sets[s] } \cup { <<"x","x">>, <<"e">>, <<"SP">> })
EmitCases == phase = "pick" => PrintT(<<"CASE", ToJson([family |-> "localeid", abs |-> [set |-> set, names |-> Sets[set], probes |-> Probes(set)]])>>)
MCSpec == Init /\ [][Next]_vars
=============================================================================
