"""C18  Formatters apply the declared options for the locale being rendered."""
import json
import os
import random
import shutil

import vp
from checks import loadfam, runtimefam
from checks.fmtcat import CATALOGUE, FMT_LOCALES, VALKEYS

SYM_OF = {v: k for k, v in vp.LEX.items()}


def syms(text):
    return [SYM_OF[c] for c in text]


def l1_projects(items, per=80):
    out = []
    for start in range(0, len(items), per):
        chunk = items[start:start + per]
        names, its, entries = [], [], []
        for j, (abs_, text) in enumerate(chunk):
            name = "k%04d" % (j + 1)
            names.append(name)
            its.append(abs_)
            entries.append([name, {"t": "str", "s": ["LB", "LB", "SP", "v", "COMMA"] + text + ["RB", "RB"]}])
        out.append({"family": "formatter-texts", "abs": {"names": names, "items": its},
                    "cfg": {"default": "en", "locales": ["en"]}, "files": [["en", {"t": "map", "e": entries}]]})
    return out


def check(run):
    quick = run.tier == "quick"
    rng = random.Random(run.seed)
    gen = vp.tlc("MC_Formatter", "MC_Formatter_gen.cfg", run.workdir, workers=8)
    vp.tlc_ok(gen, "MC_Formatter gen")
    run.add_mc("MC_Formatter/gen (texts and their meaning)", gen)
    cache = vp.tlc("MC_Formatter", "MC_Formatter_cache.cfg", run.workdir, workers=8)
    vp.tlc_ok(cache, "MC_Formatter cache")
    run.add_mc("MC_Formatter/cache (3 threads x 2 keys)", cache)
    cases = [json.loads(c) for c in sorted(set(gen["tagged"].get("CASE", [])))]
    items = []
    for c in cases:
        texts = c["texts"] if not quick else [c["texts"][0], rng.choice(c["texts"])]
        for t in texts:
            items.append((c["abs"], t))
    if len(items) < 100:
        raise vp.ToolError("too few formatter texts")
    # L1: the parser's view of every text
    loadfam.replay_load(run, l1_projects(items), "Trace_Formatter", "Trace_Formatter.cfg", build_features=("json", "quote"),
                        variant="json-quote", tag="_l1",
                        key_of=lambda c, r: "l1;" + sorted(r["tags"])[0])
    # L2: what the catalogue texts mean (spec), then outputs vs direct ICU4X
    wd = os.path.join(run.workdir, "cat")
    os.makedirs(wd, exist_ok=True)
    cat_syms = {k: syms(t) for k, t in CATALOGUE.items()}
    cat_path = os.path.join(wd, "catalogue.json")
    json.dump(cat_syms, open(cat_path, "w"))
    mres = vp.tlc("MC_FormatterCat", "MC_FormatterCat.cfg", run.workdir, workers=1, env={"CAT": cat_path})
    vp.tlc_ok(mres, "MC_FormatterCat")
    meaning = {}
    for c in mres["tagged"].get("CASE", []):
        d = json.loads(c)
        meaning[d["key"]] = d["meaning"]
    all_locales = ["en", "en-US", "en-GB", "fr", "fr-CA", "de", "ar", "he", "zh-Hant-TW", "sr-Latn", "sr-Cyrl", "ca-ES-valencia"]
    locales = FMT_LOCALES if quick else all_locales
    calls = [{"key": k, "locale": l, "kind": meaning[k]["name"], "args": meaning[k]["args"]} for k in sorted(CATALOGUE) for l in locales]
    orders = [("forward", calls, 1), ("reversed", list(reversed(calls)), 1)]
    sh = list(calls)
    for n in range(1 if quick else 6):
        sh = list(calls)
        rng.shuffle(sh)
        orders.append(("shuffled" if n == 0 else "shuffled%d" % (n + 1), sh, 1))
    # every ordered PAIR of keys of one kind back to back in one locale: the second call must not be served by what the first one
    # left behind (a memo of "the last formatter used" keyed by less than the options)
    by_kind = {}
    for k in sorted(CATALOGUE):
        by_kind.setdefault(meaning[k]["name"], []).append(k)
    pair_calls = []
    for l in (locales if quick else locales[:6]):
        for kind, ks in sorted(by_kind.items()):
            for k1 in ks:
                for k2 in ks:
                    if k1 != k2:
                        pair_calls += [{"key": k, "locale": l, "kind": kind, "args": meaning[k]["args"]} for k in (k1, k2)]
    orders.append(("pairs", pair_calls, 1))
    orders.append(("threads8", sh, 8))
    if not quick:
        orders.append(("threads16", list(reversed(sh)), 16))
        orders.append(("threads3", calls, 3))
    for name, cs, threads in orders:
        rows = [{"case": 1, "mode": "fmt", "calls": cs, "threads": threads}]
        runtimefam.replay_rows(run, rows, [{"catalogue": cat_syms}], "Trace_Formatter", "Trace_Formatter.cfg", "_l2_" + name,
                               key_of=lambda r, ev, nm=name: "l2;%s;%s;%s;%s;%s" % (nm, ev.get("via"), ev.get("key"), ev.get("locale"), sorted(r["tags"])[0].split(":")[0]))
    # L2, values: the value universe of the specification (every numeric type with its extremes, floats by their shortest
    # decimal, lists of every length, corner dates and times) through a few keys of each kind
    vres = vp.tlc("MC_FormatterValues", "MC_FormatterValues.cfg", run.workdir, workers=1)
    vp.tlc_ok(vres, "MC_FormatterValues")
    run.add_mc("MC_FormatterValues (value universe)", vres)
    values = [json.loads(c) for c in sorted(set(vres["tagged"].get("CASE", [])))]
    if len(values) < 50:
        raise vp.ToolError("too few formatter values")
    vlocales = ["en", "fr", "ar"] if quick else all_locales
    vcalls = [{"key": k, "locale": l, "kind": kind, "args": meaning[k]["args"], "ty": v["ty"], "text": v["text"]}
              for v in values for kind in v["kinds"] for k in VALKEYS[kind] for l in vlocales]
    runtimefam.replay_rows(run, [{"case": 1, "mode": "fmtval", "calls": vcalls}], [{"catalogue": cat_syms, "values": values}],
                           "Trace_Formatter", "Trace_Formatter.cfg", "_l2_values",
                           key_of=lambda r, ev: "values;%s;%s;%s;%s" % (ev.get("via"), ev.get("key"), ev.get("ty"), ev.get("text")),
                           per_case_timeout=600)
    run.notes["formatter_values"] = len(values)
    run.samples = [{"text": items[len(items) // 2][1], "abs": items[len(items) // 2][0]}, {"catalogue_key": "f_dt2", "text": CATALOGUE["f_dt2"], "meaning": meaning["f_dt2"]}]
    run.exhaustive = True
    run.notes["formatter_texts"] = len(items)
    run.notes["catalogue_keys"] = len(CATALOGUE)
    run.assumptions = ["L1: every formatter kind with up to 2 written arguments (valid, unknown value, unknown name, duplicates) under 5 whitespace spellings",
                       "L2: a catalogue of %d formatter keys x 5 locales rendered by generated accessors in 3 call orders (fresh process each) and from 8 threads, "
                       "compared with direct ICU4X calls made with the options the specification derived from the text" % len(CATALOGUE),
                       "ICU4X / CLDR is the oracle for the formatted output; the catalogue is rendered for one value per kind, a few keys of each kind for "
                       "the value universe of spec/FormatterValues.tla (every numeric input type, list lengths 0-5, corner dates / times)"]
    return run.finish("all formatter texts of the bounded grammar (L1) + catalogue x locales x histories (L2); non-trivial: texts with at least one written argument",
                      {"distinct_nontrivial": sum(1 for a, t in items if a["written"])})


def replay(run, path):
    raise vp.ToolError("replay: re-run `bin/check C18`; key, locale and options are in the replay file")
